"""Independent reference resolver for Nix lexical scoping (DESIGN.md appendix B).

Works on the tree-sitter CST only.  For a reference (a bare identifier used as
a value) it designates the binding that Nix's static scoping rules select:

* ``let``: all its bindings are in scope in every binding value and in the body;
* ``rec { }``: its attributes are in scope in all its values; a plain set binds nothing;
* ``inherit x;`` refers to the scope *outside* the let / set that contains it;
  ``inherit (e) x;`` selects attribute x of e, with e resolved *inside*;
* lambda formals bind in the body and in the defaults; an un-applied lambda is
  opaque (default, if any, else unknown);
* ``with e;`` is consulted only if no enclosing let / rec / formal binds the
  name, innermost ``with`` first; e must be a set literal (or a name resolving
  to one), else the answer is 'unspecified';
* a value that is itself a bare name is followed (chain); revisiting a binding
  is a cycle; no binder at all is 'unbound'.
"""

from __future__ import annotations

from . import reader


class Res:
    """Outcome of a resolution."""

    __slots__ = ("kind", "tokens", "extent", "binder", "via", "chain", "last_extent")

    def __init__(self, kind, tokens=None, extent=None, binder=None, via=None, chain=0):
        self.last_extent = None  # value extent of the last *bound* link of the chain (also when the tail is unbound)
        self.kind = kind  # value / unbound / cycle / unspecified / formal
        self.tokens = tokens
        self.extent = extent  # (start, end) bytes of the defining value node
        self.binder = binder  # let / rec / with / formal / inherit_from
        self.via = via or []  # binder kinds crossed along the chain
        self.chain = chain

    def __repr__(self):
        return "Res(%s, %r, binder=%s, chain=%d)" % (self.kind, self.tokens, self.binder, self.chain)


def _name_of_variable(node):
    """Bare identifier value -> its name, else None."""
    if node is None:
        return None
    if node.type == "variable_expression":
        ids = [c for c in node.named_children if c.type == "identifier"]
        if len(ids) == 1 and node.child_count == 1:
            return ids[0].text.decode()
    return None


def _bindings_of(scope_node):
    out = []
    for c in scope_node.named_children:
        if c.type == "binding_set":
            out.extend(x for x in c.named_children if x.type != "comment")
    return out


def _find_in_scope(scope_node, name):
    """Binding of *name* directly in a let / set node -> (kind, node) or None.

    A name defined more than once in one scope (invalid Nix) -> ('dup', node).
    """
    hits = _find_all_in_scope(scope_node, name)
    if not hits:
        return None
    if len(hits) > 1:
        return ("dup", hits[0][1])
    return hits[0]


def _find_all_in_scope(scope_node, name):
    out = []
    for b in _bindings_of(scope_node):
        if b.type == "binding":
            ap = b.child_by_field_name("attrpath")
            segs = [reader.decode_attr(s) for s in ap.named_children if s.type != "comment"]
            if segs and segs[0] == name:
                out.append(("bind" if len(segs) == 1 else "attrpath", b))
        elif b.type in ("inherit", "inherit_from"):
            for c in b.named_children:
                if c.type == "inherited_attrs":
                    names = [reader.decode_attr(x) for x in c.named_children if x.type != "comment"]
                    if name in names:
                        out.append((b.type, b))
    return out


def _formal_of(fn_node, name):
    """-> ('formal', default_node|None) if the lambda binds *name*."""
    for c in fn_node.children:
        if c.type == "identifier" and c.text.decode() == name:
            return ("formal", None)  # `x:` or `args@`
        if c.type == "formals":
            for f in c.named_children:
                if f.type != "formal":
                    continue
                ident = f.child_by_field_name("name")
                if ident is None:
                    ident = next((x for x in f.named_children if x.type == "identifier"), None)
                if ident is not None and ident.text.decode() == name:
                    default = f.child_by_field_name("default")
                    if default is None:
                        rest = [x for x in f.named_children
                                if (x.start_byte, x.end_byte) != (ident.start_byte, ident.end_byte) and x.type != "comment"]
                        default = rest[0] if rest else None
                    return ("formal", default)
    return None


def _is_within(node, ancestor_child):
    return node.start_byte >= ancestor_child.start_byte and node.end_byte <= ancestor_child.end_byte


class Resolver:
    def __init__(self, doc: reader.Doc, *, max_chain: int = 64):
        self.doc = doc
        self.max_chain = max_chain

    def tokens(self, node):
        return tuple(self.doc.token_texts(node))

    # ------------------------------------------------------------------
    def resolve_value_node(self, node, visited=None, via=None, chain=0) -> Res:
        """Resolve the value expression *node*: follow it while it is a bare name."""
        visited = visited if visited is not None else set()
        via = via if via is not None else []
        name = _name_of_variable(node)
        if name is None or name in reader.KEYWORDS or name == "import":
            return Res("value", self.tokens(node), (node.start_byte, node.end_byte), binder=via[-1] if via else None, via=via, chain=chain)
        if chain > self.max_chain:
            return Res("cycle", via=via, chain=chain)
        return self.lookup(name, node, visited, via, chain)

    def lookup(self, name, start, visited, via, chain) -> Res:
        """Find the binder of *name* seen from *start*, searching outwards."""
        withs = []
        child = start
        cur = start.parent
        while cur is not None:
            t = cur.type
            if t == "let_expression" or t == "rec_attrset_expression":
                hit = _find_in_scope(cur, name)
                if hit is not None:
                    return self._take(name, hit, cur, "let" if t == "let_expression" else "rec", visited, via, chain)
            elif t == "attrset_expression":
                # plain set: binds nothing, but `inherit (e) x` etc. are irrelevant for references inside values
                pass
            elif t == "function_expression":
                body = cur.child_by_field_name("body")
                f = _formal_of(cur, name)
                if f is not None and (body is None or _is_within(start, body) or True):
                    default = f[1]
                    applied = self._applied_argument(cur)
                    if applied is not None:
                        return self._applied_formal(cur, name, default, applied, visited, via, chain)
                    if default is None:
                        return Res("formal", None, None, binder="formal", via=via + ["formal"], chain=chain)
                    r = self.resolve_value_node(default, visited, via + ["formal"], chain + 1)
                    if r.kind == "value":
                        r.kind = "formal"
                    return r
            elif t == "with_expression":
                body = cur.child_by_field_name("body")
                if body is not None and _is_within(child, body):
                    withs.append(cur)
            child = cur
            cur = cur.parent
        for w in withs:
            env = w.child_by_field_name("environment")
            env_set = self._as_set_literal(env, visited, chain)
            if env_set is None:
                return Res("unspecified", via=via + ["with"], chain=chain)
            hit = _find_in_scope(env_set, name)
            if hit is not None:
                return self._take(name, hit, env_set, "with", visited, via, chain)
        return Res("unbound", via=via, chain=chain)

    def _applied_formal(self, fn_node, name, default, applied, visited, via, chain) -> Res:
        """A formal of a directly applied lambda: the supplied argument, else the default."""
        has_formals = any(c.type == "formals" for c in fn_node.children)
        simple = [c for c in fn_node.children if c.type == "identifier"]
        if not has_formals:
            # `x: body` applied to E: x is E, evaluated at the call site
            r = self.resolve_value_node(applied, visited, via + ["argument"], chain + 1)
            if r.kind == "value" and r.binder is None:
                r.binder = "argument"
            return r
        if simple and simple[0].text.decode() == name:
            return Res("unspecified", via=via + ["formal"], chain=chain)  # `args@{ … }`: the whole argument
        arg_set = self._as_set_literal(applied, visited, chain)
        if arg_set is None:
            return Res("unspecified", via=via + ["formal"], chain=chain)
        hit = _find_in_scope(arg_set, name)
        if hit is not None:
            return self._take(name, hit, arg_set, "argument", visited, via, chain)
        if default is None:
            return Res("unspecified", via=via + ["formal"], chain=chain)  # missing argument: an evaluation error
        r = self.resolve_value_node(default, visited, via + ["default"], chain + 1)
        if r.kind == "value" and r.binder is None:
            r.binder = "default"
        return r

    def _applied_argument(self, fn_node):
        p = fn_node.parent
        while p is not None and p.type == "parenthesized_expression":
            fn_node, p = p, p.parent
        if p is not None and p.type == "apply_expression" and p.child_by_field_name("function") == fn_node:
            return p.child_by_field_name("argument")
        return None

    def _as_set_literal(self, node, visited, chain):
        """A node that denotes a set literal statically (directly or through names) or None."""
        hops = 0
        while node is not None and hops < 16:
            hops += 1
            if node.type == "parenthesized_expression":
                node = node.child_by_field_name("expression")
                continue
            if node.type in reader.SET_TYPES:
                return node
            name = _name_of_variable(node)
            if name is None:
                return None
            r = self.lookup(name, node, set(visited), [], chain + 1)
            if r.kind != "value" or r.extent is None:
                return None
            node = self._node_at(r.extent)
        return None

    def _node_at(self, extent):
        s, e = extent
        node = self.doc.root.descendant_for_byte_range(s, max(s, e - 1))
        while node is not None and not (node.start_byte == s and node.end_byte == e):
            node = node.parent
        # prefer the outermost node with exactly this extent that is an expression
        return node

    def _take(self, name, hit, scope_node, binder, visited, via, chain) -> Res:
        kind, b = hit
        key = (b.start_byte, b.end_byte, name)
        if key in visited:
            return Res("cycle", via=via + [binder], chain=chain)
        visited.add(key)
        if kind in ("attrpath", "dup"):
            return Res("unspecified", via=via + [binder], chain=chain)
        if kind == "bind":
            ex = b.child_by_field_name("expression")
            r = self.resolve_value_node(ex, visited, via + [binder], chain + 1)
            if r.last_extent is None:
                r.last_extent = (ex.start_byte, ex.end_byte)
            return r
        if kind == "inherit":
            # `inherit x;` -> the x of the scope outside scope_node
            return self.lookup(name, scope_node, visited, via + [binder + ":inherit"], chain + 1)
        # inherit_from: (e) resolved inside scope_node
        src = None
        for c in b.named_children:
            if c.type not in ("inherited_attrs", "comment"):
                src = c
        env = self._as_set_literal(src, visited, chain)
        if env is None:
            return Res("unspecified", via=via + [binder + ":inherit_from"], chain=chain)
        hit2 = _find_in_scope(env, name)
        if hit2 is None:
            return Res("unbound", via=via + [binder + ":inherit_from"], chain=chain)
        return self._take(name, hit2, env, "inherit_from", visited, via + [binder + ":inherit_from"], chain + 1)


def resolve_attr(text: str, path: list[str]) -> tuple[Res | None, dict]:
    """Resolve the reference stored at attribute *path* of the document's target set."""
    dec = reader.decode(text, with_ext=True)
    info = {"editable": dec.shape.editable and not dec.error}
    if not info["editable"]:
        return None, info
    node = dec.shape.target
    value = None
    for k, seg in enumerate(path):
        if seg == "->":
            # dereference: the value reached so far is a name; continue inside the set literal it denotes
            if value is None or _name_of_variable(value) is None:
                return None, info
            rv = Resolver(dec.doc)
            r0 = rv.resolve_value_node(value)
            if r0.kind != "value" or r0.extent is None:
                return None, info
            node = rv._node_at(r0.extent)
            if node is None or node.type not in reader.SET_TYPES:
                return None, info
            value = None
            continue
        found = None
        for b in _bindings_of(node):
            if b.type == "binding":
                ap = b.child_by_field_name("attrpath")
                segs = [reader.decode_attr(s) for s in ap.named_children if s.type != "comment"]
                if segs == [seg]:
                    found = b.child_by_field_name("expression")
        if found is None:
            return None, info
        if k < len(path) - 1 and path[k + 1] == "->":
            value = found
        elif k < len(path) - 1:
            # the library's item access walks through with / let / assert / parentheses to the set they wrap
            hops = 0
            while found is not None and found.type in ("with_expression", "let_expression", "assert_expression", "parenthesized_expression") and hops < 8:
                hops += 1
                found = found.child_by_field_name("body") or found.child_by_field_name("expression")
            if found is None or found.type not in reader.SET_TYPES:
                return None, info
            node = found
        else:
            value = found
    info["is_reference"] = _name_of_variable(value) is not None
    info["ref_name"] = _name_of_variable(value)
    info["value_extent"] = (value.start_byte, value.end_byte)
    r = Resolver(dec.doc).resolve_value_node(value)
    info["wrappers"] = dec.shape.kinds()
    return r, info
