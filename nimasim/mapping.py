"""C14: the mapping API obeys dictionary laws and the rebuilt text agrees.

Histories of item get/set/delete on the document, on nested sets reached
through it and on the scope mapping, with restarts (re-parse of the rebuilt
text).  Oracle: a plain nested-dict model, compared after every step with
(1) what lookups through the API answer and (2) the attribute tree decoded
from ``source.rebuild()`` by the independent reader.
"""

from __future__ import annotations

import copy

from . import gen, reader
from .core import Streams, Violation, digest

ABSENT = ["zz", "yy9", "q_q"]


# ---------------------------------------------------------------------------
# model
# ---------------------------------------------------------------------------


def tree_of(members, info=None, pre=()):
    """Nested dict {name: ('leaf', tokens) | dict}; attrpath roots recorded in info."""
    d: dict = {}
    for m in members:
        if m[0] != "b":
            if info is not None:
                info.setdefault("inherit", set()).update(m[2])
            continue
        segs, val = m[1], m[2]
        if len(segs) > 1 and info is not None:
            info.setdefault("attrpath_roots", set()).add(pre + (segs[0],))
        cur = d
        ok = True
        for s in segs[:-1]:
            nxt = cur.get(s)
            if nxt is None:
                nxt = cur[s] = {}
            elif not isinstance(nxt, dict):
                ok = False
                break
            cur = nxt
        if not ok:
            continue
        leaf = segs[-1]
        if val[0] == "set":
            sub = tree_of(val[2], info, pre + tuple(segs))
            if isinstance(cur.get(leaf), dict):
                cur[leaf].update(sub)
            else:
                cur[leaf] = sub
        else:
            cur[leaf] = ("leaf", tuple(val[1]))
    return d


def tokens_of_python(value):
    """Expected Nix tokens of a Python value written through the mapping."""
    if isinstance(value, dict) and "expr" in value and len(value) == 1:
        return tree_or_leaf_of_text(value["expr"])
    if value is None:
        return ("leaf", ("null",))
    if isinstance(value, bool):
        return ("leaf", ("true" if value else "false",))
    if isinstance(value, (int, float)):
        return ("leaf", tuple(reader.tokens_of_text(repr(value))))
    if isinstance(value, str):
        return ("leaf", ('"', value, '"') if value else ('"', '"'))
    if isinstance(value, list):
        toks = ["["]
        for x in value:
            toks.extend(tokens_of_python(x)[1])
        toks.append("]")
        return ("leaf", tuple(toks))
    if isinstance(value, dict):
        return {k: tokens_of_python(v) for k, v in value.items()}
    raise ValueError(value)


def tree_or_leaf_of_text(text: str):
    doc = reader.Doc(text)
    tops = [c for c in doc.root.named_children if c.type != "comment"]
    v = reader.value_of(tops[0], False)
    if v[0] == "set":
        return tree_of(v[2])
    return ("leaf", tuple(v[1]))


def to_python(value):
    """Materialise the JSON-encoded operand into what is handed to the API."""
    if isinstance(value, dict) and "expr" in value and len(value) == 1:
        from nix_manipulator import parse

        return parse(value["expr"]).expressions[0]
    return copy.deepcopy(value)


def norm_got(got):
    """What a lookup answered, as model value (tokens or nested dict)."""
    from nix_manipulator.expressions.expression import NixExpression

    if isinstance(got, NixExpression):
        text = got.rebuild()
        return tree_or_leaf_of_text(text)
    return tokens_of_python(got)


# ---------------------------------------------------------------------------
# generation
# ---------------------------------------------------------------------------


def py_value(rng, tag: int):
    r = rng.random()
    if r < 0.07:
        # scalars that compare equal across types in Python (True == 1 == 1.0) but are different Nix values
        return rng.choice([0, 1, True, False, 1.0, 0.0, 2, 2.0, -1])
    if r < 0.35:
        return tag
    if r < 0.5:
        return "v%d" % tag
    if r < 0.58:
        return rng.choice([True, False])
    if r < 0.63:
        return None
    if r < 0.72:
        return [tag, tag + 1]
    if r < 0.8:
        return {"k": tag}
    if r < 0.9:
        return {"expr": str(tag)}
    if r < 0.93:
        return {"expr": "[ %d ]" % tag}
    if r < 0.96:
        return {"expr": "[\n  %d\n  %d\n]" % (tag, tag + 1)}  # a value that spans several lines
    return {"expr": "{ k = %d; }" % tag}


def generate(seed: int, tier: str) -> dict:
    st = Streams(seed)
    cfg = gen.swarm(st("swarm"), tier)
    cfg["quoted"] = False
    cfg["refs"] = False
    # `source[k]` sees one binding per name: a name defined by an explicit set *and* by attrpath bindings is outside
    # the dictionary model (known finding KF-mixed-family-mapping-C14, its witness is replayed on every run)
    cfg["mixed_family"] = False
    cfg["inherit"] = cfg["inherit"] and st("swarm").random() < 0.3
    cfg["lets"] = st("swarm").choice([0, 0, 0, 1, 1, 2])
    from .props import MAX_DOC_LINES

    doc = gen.DocGen(st("doc"), cfg, docnum=seed % 1000).document()
    attempt = 0
    while doc.count("\n") > MAX_DOC_LINES:
        attempt += 1
        cfg["max_members"] = max(1, cfg["max_members"] - 1)
        cfg["max_depth"] = max(0, cfg["max_depth"] - 1)
        doc = gen.DocGen(Streams(seed)("doc%d" % attempt), cfg, docnum=seed % 1000).document()
    rng = st("ops")
    alias = None
    if st("swarm").random() < 0.12:
        # the document body is a let-bound name that denotes a set: `let x = { … }; in x`
        g = gen.DocGen(st("doc"), dict(cfg, attrpath=False, inherit=False, trailing_comment=False), docnum=seed % 1000)
        inner = g.members(0, 4, gen.NAMES, [])
        inner = [l for l in inner if l.strip() and not l.lstrip().startswith("#")] or ["    a = 1;"]
        alias = rng.choice(["x", "pkg"])
        doc = "let\n  %s = {\n%s\n  };\n  k = %d;\nin\n%s\n" % (alias, "\n".join(inner), seed % 1000, alias)
    dec = reader.decode(doc)
    ops: list[dict] = []
    case = {"prop": "C14", "engine": "mapping", "seed": seed, "tier": tier, "doc": doc, "ops": ops}
    if alias:
        m = _model_from_text(doc)
        if m is None:
            return case
        _, model, scope, _info = m
        scope_ok = True
    else:
        if dec.error or not dec.shape.editable or _beyond_mapping_reach(dec):
            return case
        model = tree_of(dec.target)
        scope = tree_of(dec.layers[0]) if len(dec.layers) == 1 else {}
        scope_ok = len(dec.layers) <= 1 and not dec.shape.outer_kinds()
    n = rng.randint(1, 7 if tier == "quick" else 10)
    tag = (seed % 9000 + 1000) * 100
    deleted: dict = {}  # id(model container) -> keys deleted from it so far
    for _ in range(n):
        if ops and rng.random() < 0.2:
            ops.append({"op": "restart"})
        tag += 1
        r = rng.random()
        on = "doc"
        if alias:
            model = scope.get(alias)
            if not isinstance(model, dict):
                break  # the alias no longer denotes a set: document-level access is undefined from here on
            if rng.random() < 0.25:
                # re-bind the name the body refers to: the document must now show the new set
                val = {"q%d" % (tag % 7): tag} if rng.random() < 0.5 else {"expr": "{ q%d = %d; }" % (tag % 7, tag)}
                ops.append({"op": "set", "on": "scope", "keys": [alias], "value": val})
                scope[alias] = tokens_of_python(val)
                continue
        base = model
        prefix: list[str] = []
        if scope_ok and r < (0.2 if not alias else 0.4):
            on = "scope"
            base = scope
        elif r < 0.5:
            subs = [k for k, v in model.items() if isinstance(v, dict)]
            leafs = [k for k, v in model.items() if not isinstance(v, dict)]
            if subs and rng.random() < 0.8:
                on = "nested"
                prefix = [rng.choice(subs)]
                base = model[prefix[0]]
            elif leafs:
                on = "nested"
                prefix = [rng.choice(leafs)]
                base = None  # non-mapping
        kind = rng.choice(["get", "set", "set", "set", "del", "del"])
        if base is None:
            ops.append({"op": kind if kind != "get" else "set", "on": on, "keys": prefix + [rng.choice(gen.NAMES)], "value": py_value(rng, tag)})
            continue
        keys = sorted(base.keys())
        if kind == "set":
            gone = [x for x in deleted.get(id(base), []) if x not in base]
            if gone and rng.random() < 0.4:
                k = rng.choice(gone)  # assign a key again that was deleted earlier in this history
            else:
                k = rng.choice(keys) if keys and rng.random() < 0.5 else rng.choice(gen.FRESH[:4] + gen.NAMES)
            leaf_keys = [x for x in keys if not isinstance(base[x], dict) and x != k]
            if leaf_keys and rng.random() < 0.1:
                # the value is taken from the same document (`src["a"] = src["b"]`): both keys then denote equal
                # values, and a later assignment to one of them must not show up under the other
                k2 = rng.choice(leaf_keys)
                ops.append({"op": "set", "on": on, "keys": prefix + [k], "value": {"from": prefix + [k2]}})
                base[k] = base[k2]
                continue
            val = py_value(rng, tag)
            ops.append({"op": "set", "on": on, "keys": prefix + [k], "value": val})
            base[k] = tokens_of_python(val)
        elif kind == "del":
            k = rng.choice(keys) if keys and rng.random() < 0.8 else rng.choice(ABSENT)
            ops.append({"op": "del", "on": on, "keys": prefix + [k]})
            if k in base:
                deleted.setdefault(id(base), []).append(k)
            base.pop(k, None)
        else:
            k = rng.choice(keys) if keys and rng.random() < 0.7 else rng.choice(ABSENT)
            ops.append({"op": "get", "on": on, "keys": prefix + [k]})
    if not alias and isinstance(model, dict) and rng.random() < 0.1:
        # last step: a *set* of the document is assigned under a second name (`src["c"] = src["a"]`; both names then
        # hold the same object, as in a Python dict - which is why nothing follows); the text must show it twice
        subs = sorted(k for k, v in model.items() if isinstance(v, dict) and v)
        if subs:
            k2 = rng.choice(subs)
            others = sorted(k for k in model if k != k2)
            k = rng.choice(others) if others and rng.random() < 0.7 else rng.choice(gen.FRESH[:4])
            ops.append({"op": "set", "on": "doc", "keys": [k], "value": {"from": [k2]}})
            import copy

            model[k] = copy.deepcopy(model[k2])
    return case


# ---------------------------------------------------------------------------
# execution
# ---------------------------------------------------------------------------


class _World:
    def __init__(self, text: str):
        from nix_manipulator import parse

        self.src = parse(text)

    def container(self, on: str, keys: list[str]):
        """The mapping object an operation acts on (walks all keys but the last)."""
        if on == "scope":
            cur = self.src.expr.scope
        else:
            cur = self.src
        for k in keys[:-1]:
            cur = cur[k]
        return cur


def _bare(name: str) -> bool:
    return bool(gen.model._BARE.match(name))


def _alias_model_from_text(text: str):
    """`let … N = { … }; … in N`: (None, tree of N's set, tree of the let layer, info) or None."""
    doc = reader.Doc(text)
    if doc.has_error():
        return None
    tops = [c for c in doc.root.named_children if c.type != "comment"]
    if len(tops) != 1 or tops[0].type != "let_expression":
        return None
    body = tops[0].child_by_field_name("body")
    if body is None or body.type != "variable_expression":
        return None
    name = body.text.decode()
    scope = tree_of(reader.members_of(tops[0]))
    target = scope.get(name)
    if not isinstance(target, dict):
        return None
    return None, target, scope, {"alias": name}


def _has_mixed_family(members) -> bool:
    explicit = {m[1][0] for m in members if m[0] == "b" and len(m[1]) == 1}
    return any(m[0] == "b" and len(m[1]) > 1 and m[1][0] in explicit for m in members)


def _beyond_mapping_reach(dec) -> bool:
    """`source[k]` reaches a call argument only when it is a set literal (possibly in parentheses); the CLI helpers
    also descend a lambda or a nested call written as argument (`f (x: { … })`) - the mapping API does not."""
    kinds = dec.shape.kinds()
    for i, k in enumerate(kinds):
        if k == "call" and any(x != "paren" for x in kinds[i + 1:]):
            return True
    return False


def _model_from_text(text: str):
    dec = reader.decode(text)
    if not dec.error and dec.shape.editable and _beyond_mapping_reach(dec):
        return None
    if dec.error or not dec.shape.editable:
        return _alias_model_from_text(text) if not dec.error else None
    info: dict = {}
    model = tree_of(dec.target, info)
    scope = tree_of(dec.layers[0]) if len(dec.layers) == 1 else ({} if not dec.layers else None)
    return dec, model, scope, info


def _flat(tree, pre=()):
    out = {}
    for k, v in tree.items():
        if isinstance(v, dict):
            out[pre + (k,)] = "set"
            out.update(_flat(v, pre + (k,)))
        else:
            out[pre + (k,)] = v
    return out


def execute(case: dict):
    doc, ops = case["doc"], case["ops"]
    viols: list[Violation] = []
    stats: dict = {"ops": 0}
    keys: list = []

    def bump(k, n=1):
        stats[k] = stats.get(k, 0) + n

    m0 = _model_from_text(doc)
    if m0 is None or not ops:
        bump("skip:not_editable")
        return viols, stats, keys
    dec, model, scope, info = m0
    if any(not all(_bare(s) for s in p) for p in _flat(model)):
        bump("skip:non_bare_names")
        return viols, stats, keys
    if info.get("inherit"):
        bump("docs_with_inherit")
    world = _World(doc)
    alias = info.get("alias")
    shape_facts = {"wrappers": dec.shape.kinds(), "nlayers": len(dec.layers)} if dec is not None else {"wrappers": ["alias"], "nlayers": 1}
    shape_facts["alias"] = bool(alias)
    # a name defined both by an explicit set and by attrpath bindings (`f = { … }; f.q = 1;`)
    shape_facts["mixed_family"] = bool(dec is not None and _has_mixed_family(dec.target))
    attrpath_seen = False  # an earlier step of this history touched an attrpath-derived binding
    for i, op in enumerate(ops):
        if op["op"] == "restart":
            text = world.src.rebuild()
            world = _World(text)
            bump("restarts")
            m = _model_from_text(text)
            if m is None:
                bump("skip:restart_lost_shape")
                return viols, stats, keys
            _, info_model, info_scope, info = m
            # the model is *not* resynchronised from the text: it lives on across restarts
            continue
        bump("ops")
        on, ks = op["on"], op["keys"]
        if alias:
            model = scope.get(alias) if isinstance(scope, dict) else None
            if not isinstance(model, dict):
                bump("skip:alias_gone")
                break
        base_tree = scope if on == "scope" else model
        if base_tree is None:
            bump("skip:scope_multi_layer")
            continue
        parent = base_tree
        non_mapping = False
        missing_parent = False
        for k in ks[:-1]:
            nxt = parent.get(k) if isinstance(parent, dict) else None
            if nxt is None:
                missing_parent = True
                break
            if not isinstance(nxt, dict):
                non_mapping = True
                break
            parent = nxt
        attrpath = any(tuple(ks[: n + 1]) in info.get("attrpath_roots", ()) for n in range(len(ks))) if on != "scope" else False
        attrpath_seen = attrpath_seen or attrpath
        facts = dict(shape_facts, op=op["op"], on=on, attrpath=attrpath, non_mapping=non_mapping, depth=len(ks),
                     inherit_key=ks[-1] in info.get("inherit", ()), attrpath_involved=attrpath_seen)
        keys.append(digest([sorted(_flat(model).items()), op["op"], on, ks, non_mapping]))
        before_text = world.src.rebuild()
        exc = None
        got = None
        try:
            cont = world.container(on, ks)
            if op["op"] == "get":
                got = cont[ks[-1]]
            elif op["op"] == "set":
                if isinstance(op["value"], dict) and list(op["value"]) == ["from"]:
                    fk = op["value"]["from"]
                    try:
                        taken = world.container(on, fk)[fk[-1]]
                    except Exception:  # noqa: BLE001 - the source of the value is gone (shrunk case): nothing to assign
                        bump("skip:value_source_missing")
                        continue
                    cont[ks[-1]] = taken
                    bump("probe:value_from_same_document")
                else:
                    cont[ks[-1]] = to_python(op["value"])
            else:
                del cont[ks[-1]]
        except Exception as e:  # noqa: BLE001
            exc = e
        after_text = world.src.rebuild()
        k = ks[-1]
        if facts["inherit_key"]:
            bump("skip:inherit_key")
            # names provided by inherit are outside the dictionary model; resync and go on
            m = _model_from_text(after_text)
            if m is None:
                return viols, stats, keys
            _, model, scope2, info = m
            scope = scope2 if scope is not None else None
            continue
        if non_mapping or missing_parent:
            bump("probe:non_mapping" if non_mapping else "probe:missing_parent")
            if exc is None:
                viols.append(Violation("C14.non_mapping_accepted", "item %s through a non-mapping value succeeded" % op["op"], i, facts))
            elif after_text != before_text:
                viols.append(Violation("C14.failed_op_mutated", "a refused item operation changed the text", i, facts))
            continue
        present = k in parent
        if op["op"] == "get":
            if present:
                bump("probe:get_present")
                if exc is not None:
                    viols.append(Violation("C14.lookup_failed", "lookup of present key %r raised %r" % (k, exc), i, facts))
                elif _norm(got) != _strip(parent[k]):
                    viols.append(Violation("C14.lookup_wrong", "lookup of %r answered %r, model holds %r" % (k, _norm(got), _strip(parent[k])), i, facts))
            else:
                bump("probe:get_absent")
                if not isinstance(exc, KeyError):
                    viols.append(Violation("C14.missing_key_no_keyerror", "lookup of absent key %r: %r" % (k, exc if exc else got), i, facts))
            if after_text != before_text:
                viols.append(Violation("C14.lookup_mutated", "a lookup changed the rebuilt text", i, facts))
        elif op["op"] == "set":
            bump("probe:set_existing" if present else "probe:set_new")
            if exc is not None:
                viols.append(Violation("C14.set_failed", "assignment of %r raised %r" % (k, exc), i, facts))
                continue
            if isinstance(op["value"], dict) and list(op["value"]) == ["from"]:
                src_parent = base_tree
                for kk in op["value"]["from"][:-1]:
                    src_parent = src_parent[kk]
                parent[k] = src_parent[op["value"]["from"][-1]]
            else:
                parent[k] = tokens_of_python(op["value"])
        else:
            if present:
                bump("probe:del_present")
                if exc is not None:
                    viols.append(Violation("C14.del_failed", "deletion of present key %r raised %r" % (k, exc), i, facts))
                    continue
                del parent[k]
            else:
                bump("probe:del_absent")
                if not isinstance(exc, KeyError):
                    viols.append(Violation("C14.missing_key_no_keyerror", "deletion of absent key %r: %r" % (k, exc), i, facts))
                if after_text != before_text:
                    viols.append(Violation("C14.failed_op_mutated", "deleting an absent key changed the text", i, facts))
        if alias:
            # a scope operation may have re-bound or removed the name the document body refers to
            model = scope.get(alias) if isinstance(scope, dict) else None
            if not isinstance(model, dict):
                bump("skip:alias_gone")
                break
        # ---- laws over all keys of the touched mapping, through the API
        try:
            cont = world.container(on, ks)
        except Exception as e:  # noqa: BLE001
            viols.append(Violation("C14.container_lost", "cannot reach the mapping any more: %r" % (e,), i, facts))
            break
        bad = None
        for name, want in parent.items():
            try:
                have = _norm(cont[name])
            except Exception as e:  # noqa: BLE001
                bad = "lookup of %r raises %r" % (name, e)
                break
            if have != _strip(want):
                bad = "lookup of %r answers %r, expected %r" % (name, have, _strip(want))
                break
        if bad is None:
            for name in ABSENT + ([k] if op["op"] == "del" and k not in parent else []):
                if name in parent:
                    continue
                try:
                    cont[name]
                    bad = "absent key %r answers a value" % name
                    break
                except KeyError:
                    pass
                except Exception as e:  # noqa: BLE001
                    bad = "absent key %r raises %r instead of KeyError" % (name, e)
                    break
        if bad:
            viols.append(Violation("C14.mapping_law", bad, i, facts))
            break
        # ---- text agrees with the model
        m = _model_from_text(after_text)
        if m is None:
            viols.append(Violation("C14.text_invalid", "rebuilt text is invalid or lost its shape: %r" % after_text[-160:], i, facts))
            break
        _, t_model, t_scope, _ = m
        want_flat = _flat(_strip(model))
        have_flat = _flat(_strip(t_model))
        inh = info.get("inherit", ())
        have_flat = {p: v for p, v in have_flat.items() if p[0] not in inh}
        want_flat = {p: v for p, v in want_flat.items() if p[0] not in inh}
        if want_flat != have_flat:
            extra = sorted(set(have_flat) - set(want_flat))[:3]
            lack = sorted(set(want_flat) - set(have_flat))[:3]
            diff = [p for p in want_flat if p in have_flat and want_flat[p] != have_flat[p]][:3]
            viols.append(Violation("C14.text_disagrees", "rebuilt text and mapping disagree: text has extra %r, lacks %r, differs at %r" % (extra, lack, diff), i, facts))
            break
        if scope is not None and t_scope is not None and _flat(_strip(scope)) != _flat(_strip(t_scope)):
            viols.append(Violation("C14.scope_text_disagrees", "rebuilt let layer and scope mapping disagree: %r vs %r" % (_flat(_strip(t_scope)), _flat(_strip(scope))), i, facts))
            break
    return viols, stats, keys


# ---------------------------------------------------------------------------
# second workload: keys are spellings
# ---------------------------------------------------------------------------
# A mapping key is the attribute name *as written* (`"foo"` and `foo` are two keys for all three operations).  The
# main workload reads its model back from the text with quotes normalised away, so it keeps to bare names; this one
# keeps its own dictionary keyed by spelling, starts from documents it wrote itself and asks every candidate key
# after every operation.

SPELL_NAMES = ["foo", "bar", "q", "zz"]
SPELL_ONLY_QUOTED = ['"a b"', '"x-1.y"', '"1st"']


def _spell_universe():
    return SPELL_NAMES + ['"%s"' % n for n in SPELL_NAMES] + SPELL_ONLY_QUOTED


def generate_spelling(seed: int, tier: str) -> dict:
    st = Streams(seed)
    rng = st("spelling")
    tag = (seed % 9000 + 1000) * 100

    def members(ind):
        nonlocal tag
        lines, model = [], {}
        if rng.random() < 0.2:
            # no member at all, only a comment or a blank line between the braces
            return [rng.choice([ind + "# filled in later", "", ind + "# a\n\n" + ind + "# b"])], {}
        pool = list(SPELL_NAMES)
        rng.shuffle(pool)
        for n in pool[: rng.randint(1, 4)]:
            tag += 1
            k = n if rng.random() < 0.5 else '"%s"' % n  # one spelling per name in the document as written
            lines.append("%s%s = %d;" % (ind, k, tag))
            model[k] = ("leaf", (str(tag),))
        for k in SPELL_ONLY_QUOTED:
            if rng.random() < 0.3:
                tag += 1
                lines.append("%s%s = %d;" % (ind, k, tag))
                model[k] = ("leaf", (str(tag),))
        return lines, model

    top_lines, top = members("  ")
    nested = None
    if rng.random() < 0.5:
        in_lines, nested = members("    ")
        nk = rng.choice(["s", '"s"'])
        top_lines.insert(rng.randrange(len(top_lines) + 1), "  %s = {\n%s\n  };" % (nk, "\n".join(in_lines)))
    else:
        nk = None
    form = rng.choice(["plain", "plain", "let", "lambda"])
    head = {"plain": "", "let": "let\n  k = 1;\nin\n", "lambda": "{ lib }:\n"}[form]
    doc = head + "{\n" + "\n".join(top_lines) + "\n}\n"
    ops = []
    for _ in range(rng.randint(2, 7 if tier == "quick" else 10)):
        tag += 1
        if ops and rng.random() < 0.15:
            ops.append({"op": "restart"})
        where = "nested" if nested is not None and rng.random() < 0.4 else "top"
        k = rng.choice(_spell_universe())
        kind = rng.choice(["get", "set", "set", "del", "del"])
        ops.append({"op": kind, "where": where, "key": k, "value": rng.choice([tag, "v%d" % tag, {"expr": str(tag)}])})
    return {"prop": "C14", "engine": "mapping", "kind": "spelling", "seed": seed, "tier": tier, "doc": doc, "ops": ops,
            "model": {"top": {k: list(v[1]) for k, v in top.items()}, "nested_key": nk,
                      "nested": None if nested is None else {k: list(v[1]) for k, v in nested.items()}}}


def execute_spelling(case: dict):
    from nix_manipulator import parse

    viols: list[Violation] = []
    stats: dict = {"ops": 0, "spelling_cases": 1}
    keys: list = []

    def bump(k, n=1):
        stats[k] = stats.get(k, 0) + n

    top = {k: tuple(v) for k, v in case["model"]["top"].items()}
    nk = case["model"]["nested_key"]
    nested = None if case["model"]["nested"] is None else {k: tuple(v) for k, v in case["model"]["nested"].items()}
    if reader.Doc(case["doc"]).has_error():
        bump("skip:invalid_document")
        return viols, stats, keys
    src = parse(case["doc"])
    universe = _spell_universe()

    def cont(where):
        return src[nk] if where == "nested" else src

    def toks(got):
        v = _norm(got)
        return tuple(v[1]) if isinstance(v, tuple) and v and v[0] == "leaf" else v

    def sweep(i, facts):
        """Every candidate key, in both spellings, answers what the dictionary holds."""
        for where, model in (("top", top), ("nested", nested)):
            if model is None:
                continue
            try:
                c = cont(where)
            except Exception as e:  # noqa: BLE001
                return "cannot reach the %s mapping any more: %r" % (where, e)
            for name in universe:
                try:
                    have = toks(c[name])
                    if name not in model:
                        return "%s[%s] answers %r, the key is absent" % (where, name, have)
                    if have != model[name]:
                        return "%s[%s] answers %r, expected %r" % (where, name, have, model[name])
                except KeyError:
                    if name in model:
                        return "%s[%s] raises KeyError, expected %r" % (where, name, model[name])
                except Exception as e:  # noqa: BLE001
                    return "%s[%s] raises %r" % (where, name, e)
        return None

    for i, op in enumerate(case["ops"]):
        if op["op"] == "restart":
            src = parse(src.rebuild())
            bump("restarts")
            continue
        where = op["where"]
        model = nested if where == "nested" else top
        if model is None:
            continue
        bump("ops")
        k = op["key"]
        other = k[1:-1] if k.startswith('"') else '"%s"' % k
        facts = {"spelling": True, "op": op["op"], "where": where, "quoted_key": k.startswith('"'), "present": k in model,
                 "other_spelling_present": other in model}
        keys.append(digest([sorted(top.items()), sorted(nested.items()) if nested is not None else None, op["op"], where, k]))
        before = src.rebuild()
        exc = None
        got = None
        try:
            c = cont(where)
            if op["op"] == "get":
                got = c[k]
            elif op["op"] == "set":
                c[k] = to_python(op["value"])
            else:
                del c[k]
        except Exception as e:  # noqa: BLE001
            exc = e
        after = src.rebuild()
        if op["op"] == "get":
            bump("probe:spell_get_present" if k in model else "probe:spell_get_absent")
            if k in model and (exc is not None or toks(got) != model[k]):
                viols.append(Violation("C14.lookup_wrong", "lookup of %s answers %r, expected %r" % (k, exc if exc else toks(got), model[k]), i, facts))
            if k not in model and not isinstance(exc, KeyError):
                viols.append(Violation("C14.missing_key_no_keyerror", "lookup of absent key %s: %r" % (k, exc if exc else toks(got)), i, facts))
            if after != before:
                viols.append(Violation("C14.lookup_mutated", "a lookup changed the rebuilt text", i, facts))
        elif op["op"] == "set":
            bump("probe:spell_set_existing" if k in model else "probe:spell_set_new")
            if exc is not None:
                viols.append(Violation("C14.set_failed", "assignment of %s raised %r" % (k, exc), i, facts))
                break
            model[k] = tuple(tokens_of_python(op["value"])[1])
        else:
            if k in model:
                bump("probe:spell_del_present")
                if exc is not None:
                    viols.append(Violation("C14.del_failed", "deletion of present key %s raised %r" % (k, exc), i, facts))
                    break
                del model[k]
            else:
                bump("probe:spell_del_absent")
                if not isinstance(exc, KeyError):
                    viols.append(Violation("C14.missing_key_no_keyerror", "deletion of absent key %s: %r" % (k, exc), i, facts))
                if after != before:
                    viols.append(Violation("C14.failed_op_mutated", "deleting an absent key changed the text", i, facts))
        if viols:
            break
        bad = sweep(i, facts)
        if bad:
            viols.append(Violation("C14.mapping_law", bad, i, facts))
            break
        # the text shows exactly these bindings: count them (per spelling) in a fresh parse
        fresh = parse(after)
        try:
            for where2, m2 in (("top", top), ("nested", nested)):
                if m2 is None:
                    continue
                c2 = fresh[nk] if where2 == "nested" else fresh
                names = [b.name for b in c2.values if hasattr(b, "name") and hasattr(b, "value")] if hasattr(c2, "values") else None
                if names is None:
                    tgt = fresh.expr
                    for _ in range(6):
                        if hasattr(tgt, "values"):
                            break
                        tgt = getattr(tgt, "output", None) or getattr(tgt, "value", None) or getattr(tgt, "body", None)
                    names = [b.name for b in tgt.values if hasattr(b, "name") and hasattr(b, "value")]
                want = sorted(m2) + ([nk] if where2 == "top" and nk else [])
                if sorted(names) != sorted(want):
                    viols.append(Violation("C14.text_disagrees", "%s level: the text shows bindings %r, the mapping holds %r" % (where2, sorted(names), sorted(want)), i, facts))
                    break
        except Exception as e:  # noqa: BLE001
            viols.append(Violation("C14.text_invalid", "cannot read the rebuilt text back: %r" % (e,), i, facts))
        if viols:
            break
    return viols, stats, keys


def _strip(v):
    if isinstance(v, dict):
        return {k: _strip(x) for k, x in v.items()}
    return v


def _norm(got):
    return _strip(norm_got(got))


class MappingProperty:
    engine = "mapping"
    rule = ("one evaluation = one seeded history of item get/set/del on the document, nested sets and the scope mapping with restarts; "
            "distinct = distinct hash of (model state, operation, target mapping, keys)")

    def __init__(self, quick_runs=30000, thorough_runs=400000):
        self.pid = "C14"
        self.runs = {"quick": quick_runs, "thorough": thorough_runs}

    def generate(self, seed, tier):
        if Streams(seed)("kind").random() < 0.12:
            return generate_spelling(seed, tier)
        return generate(seed, tier)

    def execute(self, case):
        if case.get("kind") == "spelling":
            return execute_spelling(case)
        return execute(case)

    def shrink_candidates(self, case):
        ops = case["ops"]
        n = len(ops)
        if case.get("kind") == "spelling":
            # the model travels with the document: shrink the history only
            for k in range(n):
                yield dict(case, ops=ops[:k] + ops[k + 1:])
            return
        size = max(1, n // 2)
        while size >= 1:
            for start in range(0, n, size):
                new = ops[:start] + ops[start + size:]
                if new and len(new) < n:
                    c = dict(case)
                    c["ops"] = new
                    yield c
            size //= 2
        lines = case["doc"].split("\n")
        size = max(1, len(lines) // 2)
        while size >= 1:
            for start in range(0, len(lines), size):
                doc = "\n".join(lines[:start] + lines[start + size:])
                if doc != case["doc"] and doc.strip() and not reader.Doc(doc).has_error() and not reader.EMPTY_LET.search(doc):
                    c = dict(case)
                    c["doc"] = doc
                    yield c
            size //= 2
