"""Baton scheduler: real threads, exactly one runnable at a time.

Each worker thread parks on its own Event; the holder of the baton runs.  A
``sys.settrace`` function installed per worker fires at every *line* event in
files under the package prefix; there the scheduler draws from its PRNG and
with probability ``p`` hands the baton to a PRNG-chosen runnable thread.
``gc`` is disabled for the whole run; ``gc.collect()`` is itself a scheduled
event, so weak-reference callbacks fire at decided points only.

The schedule is recorded as an explicit list of (step, to_thread | 'gc') and
can be replayed from that list (used while shrinking).
"""

from __future__ import annotations

import gc
import sys
import threading

from .core import HarnessError


class Worker:
    __slots__ = ("name", "fn", "ev", "done", "result", "exc", "thread", "started")

    def __init__(self, name, fn):
        self.name = name
        self.fn = fn
        self.ev = threading.Event()
        self.done = False
        self.result = None
        self.exc = None
        self.thread = None
        self.started = False


class Scheduler:
    def __init__(self, rng, *, prefix: str, switch_p: float = 0.01, gc_p: float = 0.0005, max_steps: int = 2_000_000,
                 replay: list | None = None, probes: dict | None = None):
        self.rng = rng
        self.prefix = prefix
        self.switch_p = switch_p
        self.gc_p = gc_p
        self.max_steps = max_steps
        self.workers: list[Worker] = []
        self.steps = 0
        self.switches = 0
        self.gcs = 0
        self.log: list = []  # (step, from, to) / (step, 'gc')
        self.sites: list = []  # (thread, filename tail, lineno) at switch points
        self.replay = None if replay is None else [(int(s), t) for s, t in replay]
        self.rp = 0
        self.all_done = threading.Event()
        self.error: str | None = None
        self.probes = probes if probes is not None else {}

    def spawn(self, name, fn):
        self.workers.append(Worker(name, fn))

    # ------------------------------------------------------------------
    def _runnable(self):
        return [w for w in self.workers if not w.done]

    def _decide(self, me: Worker, frame):
        """Called at every traced line of the running worker."""
        self.steps += 1
        if self.steps > self.max_steps:
            self.error = "step budget exceeded"
            raise HarnessError("step budget exceeded")
        if self.replay is not None:
            while self.rp < len(self.replay) and self.replay[self.rp][0] < self.steps:
                self.rp += 1
            if self.rp >= len(self.replay) or self.replay[self.rp][0] != self.steps:
                return
            target = self.replay[self.rp][1]
            self.rp += 1
            if target == "gc":
                self.gcs += 1
                self.log.append((self.steps, "gc"))
                gc.collect()
                return
            nxt = next((w for w in self.workers if w.name == target and not w.done), None)
            if nxt is None or nxt is me:
                return
            self._switch(me, nxt, frame)
            return
        r = self.rng.random()
        if r < self.gc_p:
            self.gcs += 1
            self.log.append((self.steps, "gc"))
            gc.collect()
            return
        if r < self.gc_p + self.switch_p:
            cands = self._runnable()
            if len(cands) < 2:
                return
            nxt = cands[self.rng.randrange(len(cands))]
            if nxt is me:
                return
            self._switch(me, nxt, frame)

    def _switch(self, me: Worker, nxt: Worker, frame):
        self.switches += 1
        self.log.append((self.steps, nxt.name))
        fn = frame.f_code.co_filename
        site = (fn[len(self.prefix):].lstrip("/"), frame.f_code.co_name)
        self.sites.append((me.name,) + site)
        key = "switch_in:" + site[1]
        if site[1] in ("source_bytes_context", "source_path_context", "_store_context", "_get_context", "rebuild", "from_cst",
                       "parse", "parse_file", "scopes_for_owner", "_resolve_identifier", "rebuild_scoped"):
            self.probes[key] = self.probes.get(key, 0) + 1
        me.ev.clear()
        nxt.ev.set()
        me.ev.wait()

    def _make_trace(self, me: Worker):
        prefix = self.prefix
        decide = self._decide

        def local(frame, event, arg):
            if event == "line":
                decide(me, frame)
            return local

        def glob(frame, event, arg):
            if frame.f_code.co_filename.startswith(prefix):
                return local
            return None

        return glob

    def _run_worker(self, me: Worker):
        me.ev.wait()
        me.started = True
        sys.settrace(self._make_trace(me))
        try:
            me.result = me.fn()
        except BaseException as e:  # noqa: BLE001
            me.exc = e
        finally:
            sys.settrace(None)
            me.done = True
            cands = self._runnable()
            if cands:
                if self.replay is None:
                    nxt = cands[self.rng.randrange(len(cands))]
                else:
                    nxt = cands[0]
                    while self.rp < len(self.replay) and self.replay[self.rp][0] < self.steps:
                        self.rp += 1
                    if self.rp < len(self.replay) and self.replay[self.rp][0] == self.steps:
                        want = self.replay[self.rp][1]
                        self.rp += 1
                        nxt = next((w for w in cands if w.name == want), cands[0])
                self.log.append((self.steps, nxt.name))
                nxt.ev.set()
            else:
                self.all_done.set()

    def run(self, wall_guard_s: float = 60.0):
        was_enabled = gc.isenabled()
        gc.collect()
        gc.disable()
        try:
            for w in self.workers:
                w.thread = threading.Thread(target=self._run_worker, args=(w,), daemon=True, name="nimasim-" + w.name)
                w.thread.start()
            if self.replay is None:
                first = self.workers[self.rng.randrange(len(self.workers))]
            else:
                first = self.workers[0]
                if self.replay and self.replay[0][0] == 0:
                    first = next((w for w in self.workers if w.name == self.replay[0][1]), first)
                    self.rp = 1
            self.log.append((0, first.name))
            first.ev.set()
            if not self.all_done.wait(wall_guard_s):
                raise HarnessError("scheduler hang: %r" % [(w.name, w.done) for w in self.workers])
            for w in self.workers:
                w.thread.join(5)
        finally:
            if was_enabled:
                gc.enable()
        if self.error:
            raise HarnessError(self.error)
