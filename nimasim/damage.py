"""C07: sources with syntax errors are passed through untouched and never edited.

Fault model: the *stored* text is damaged between a save and the next load
(non-atomic save / shell redirection): truncation at any character boundary
(torn write), loss of one token (lost span), duplication of one token
(replayed span), a stray delimiter/keyword, replacement by non-Nix text, each
optionally wrapped in extra whitespace.  For every sampled document all single
faults are enumerated; multi-fault sequences are PRNG-sampled.  The same
operators damage the VALUE argument of a `set` on a healthy document.
"""

from __future__ import annotations

import os
import shutil

from . import clisim, gen, reader, session
from .core import Streams, Violation, digest

STRAY = ["{", "}", "[", "]", "(", ")", ";", "=", "in", "let", "''", '"', "${", ":", "@", "."]
GARBAGE = ["<<<<<<< HEAD", "%PDF-1.4", "{{{", "= = =", "\x00\x01", "if then", "]}", "α β ; = {"]
BATTERY = [
    ("set", "a", "1"), ("set", "zz9", "1"), ("set", "a.b", "1"), ("set", '"q r"', "1"), ("set", "@a", "1"), ("set", "@@a", "1"),
    ("rm", "a"), ("rm", "zz9"), ("rm", "a.b"), ("rm", "@a"),
]


def apply_fault(text: str, fault: dict) -> str:
    kind = fault["kind"]
    if kind == "truncate":
        out = text[: fault["at"]]
    elif kind == "delete":
        out = text[: fault["s"]] + text[fault["e"]:]
    elif kind == "duplicate":
        out = text[: fault["e"]] + text[fault["s"]:fault["e"]] + text[fault["e"]:]
    elif kind == "insert":
        out = text[: fault["at"]] + fault["text"] + text[fault["at"]:]
    elif kind == "replace":
        out = fault["text"]
    elif kind == "wrap":
        out = fault["lead"] + text + fault["trail"]
    else:
        raise ValueError(kind)
    return out


def char_tokens(text: str):
    """Token extents as *character* offsets."""
    doc = reader.Doc(text)
    data = doc.data
    out = []
    for _t, s, e in doc.tokens():
        cs = len(data[:s].decode("utf-8"))
        ce = cs + len(data[s:e].decode("utf-8"))
        out.append((cs, ce))
    return out


def single_faults(text: str, rng, *, budget: int):
    """All single truncations / token deletions / duplications, plus sampled strays."""
    faults = [{"kind": "truncate", "at": k} for k in range(0, len(text))]
    toks = char_tokens(text)
    for s, e in toks:
        faults.append({"kind": "delete", "s": s, "e": e})
        faults.append({"kind": "duplicate", "s": s, "e": e})
    bounds = sorted({0, len(text)} | {s for s, _ in toks} | {e for _, e in toks})
    for _ in range(min(40, 2 * len(bounds))):
        faults.append({"kind": "insert", "at": rng.choice(bounds), "text": rng.choice(STRAY)})
    for g in GARBAGE:
        faults.append({"kind": "replace", "text": g})
    if len(faults) > budget:
        keep = rng.sample(range(len(faults)), budget)
        faults = [faults[i] for i in sorted(keep)]
    return faults


def generate(seed: int, tier: str) -> dict:
    st = Streams(seed)
    cfg = gen.swarm(st("swarm"), tier)
    cfg["max_members"] = min(cfg["max_members"], 4)
    cfg["max_depth"] = min(cfg["max_depth"], 2)
    doc = gen.DocGen(st("doc"), cfg, docnum=seed % 1000).document()
    tries = 0
    while len(doc) > 400:
        tries += 1
        cfg["max_members"] = max(1, cfg["max_members"] - 1)
        cfg["max_depth"] = max(0, cfg["max_depth"] - 1)
        doc = gen.DocGen(Streams(seed)("doc%d" % tries), cfg, docnum=seed % 1000).document()
        if tries > 6:
            doc = doc[:0] + "{\n  a = 1;\n}\n"
    rng = st("faults")
    # torn save(): the stored text may be the result of a few successful edits
    pre_ops: list[dict] = []
    if rng.random() < 0.4:
        from .model import DocModel

        dm = DocModel(reader.decode(doc))
        og = gen.OpGen(st("ops"), dict(cfg, fail_rate=0.0), seed)
        for _ in range(rng.randint(1, 2)):
            if not dm.editable:
                break
            op = og.pick(dm, scoped_bias=0.1, allow_fail=False)
            if dm.apply(op)[0] != "ok":
                break
            pre_ops.append(op)
    mode = "single" if rng.random() < 0.7 else "multi"
    case = {"prop": "C07", "engine": "damage", "seed": seed, "tier": tier, "doc": doc, "pre_ops": pre_ops, "mode": mode,
            "wrap": None, "faults": None, "value_faults": rng.random() < 0.3}
    if rng.random() < 0.3:
        # (a byte-order mark or a non-ASCII comment in front: byte offsets and character offsets differ from there on)
        case["wrap"] = {"kind": "wrap", "lead": rng.choice(["", "\n", "\n\n", "  ", "\t\n ", "\ufeff", "\ufeff\n", "# é☃\n", "#!/usr/bin/env nix\n"]),
                        "trail": rng.choice(["", " ", "\n\n", "  \n", "\t", "\r\n", "\f", "\n\f\n"])}
    return case


def stored_text(case: dict) -> str | None:
    """The healthy text that is on disk before the damage (doc after pre_ops)."""
    text = case["doc"]
    if case.get("pre_ops"):
        steps = session.run_history(case["doc"], case["pre_ops"], predict=False)
        for st in steps:
            if st.outcome == "ok":
                text = st.out
    return text


def check_damaged(t: str, facts: dict, stats: dict, root: str, *, cli: bool) -> list[Violation]:
    """All clauses of C07 for one erroneous text."""
    from nix_manipulator import parse

    out: list[Violation] = []
    try:
        src = parse(t)
        rebuilt = src.rebuild()
    except Exception as e:  # noqa: BLE001
        out.append(Violation("C07.parse_crashed", "parse/rebuild of damaged text raised %r: %r" % (e, t[-80:]), None, facts))
        return out
    if rebuilt != t:
        f = dict(facts)
        f["whitespace_only"] = rebuilt.strip() == t.strip()
        out.append(Violation("C07.not_passed_through", "damaged text not returned byte for byte: %r -> %r" % (t[-80:], rebuilt[-80:]), None, f))
        return out
    for cmd in BATTERY:
        before = src.rebuild()
        try:
            res = session.apply_op(src, {"op": cmd[0], "path": cmd[1], "value": cmd[2] if len(cmd) > 2 else None})
        except Exception:  # noqa: BLE001 - any refusal is fine here; the class is C08's business
            res = None
        else:
            out.append(Violation("C07.edited_broken_source", "`%s %s` on a text with a syntax error returned text %r" % (cmd[0], cmd[1], (res or "")[-80:]), None, dict(facts, cmd=cmd[0])))
            break
        if src.rebuild() != before:
            out.append(Violation("C07.refusal_mutated", "refused `%s %s` changed the erroneous document" % (cmd[0], cmd[1]), None, dict(facts, cmd=cmd[0])))
            break
    stats["battery_ops"] = stats.get("battery_ops", 0) + len(BATTERY)
    if cli and not out:
        path = os.path.join(root, "damaged.nix")
        with open(path, "w", encoding="utf-8", newline="") as fh:
            fh.write(t)
        r = clisim.run_inprocess(["test", "-f", path], stdin_bytes=b"")
        if r.stdout != b"Fail\n" or r.status != 1:
            out.append(Violation("C07.test_verdict", "`nima test` on erroneous text: stdout %r status %d" % (r.stdout, r.status), None, facts))
        r = clisim.run_inprocess(["set", "a", "1"], stdin_bytes=t.encode("utf-8"))
        if r.stdout or r.status == 0:
            out.append(Violation("C07.cli_edit", "`nima set` on erroneous text: stdout %r status %d" % (r.stdout[-80:], r.status), None, facts))
        r = clisim.run_inprocess(["rm", "a", "-f", path], stdin_bytes=b"")
        if r.stdout or r.status == 0:
            out.append(Violation("C07.cli_edit", "`nima rm` on erroneous text: stdout %r status %d" % (r.stdout[-80:], r.status), None, facts))
        stats["cli_invocations"] = stats.get("cli_invocations", 0) + 3
        raw = t.encode("utf-8")
        with open(path, "rb") as fh:
            if fh.read() != raw:
                out.append(Violation("C07.file_touched", "the command line changed the erroneous file it was given", None, facts))
        if not out:
            # file-level API: parse_file + save (in place and to another path) writes back exactly the bytes read
            from nix_manipulator import parse_file

            other = os.path.join(root, "copy.nix")
            try:
                doc = parse_file(path)
                doc.save()
                doc.save(path=other)
                with open(path, "rb") as fh:
                    a = fh.read()
                with open(other, "rb") as fh:
                    b = fh.read()
                if a != raw or b != raw:
                    out.append(Violation("C07.save_not_verbatim", "parse_file + save of an erroneous file changed its bytes: %r -> %r / %r" % (raw[-40:], a[-40:], b[-40:]), None, facts))
            except UnicodeDecodeError:
                pass
            except Exception as e:  # noqa: BLE001
                out.append(Violation("C07.parse_crashed", "parse_file/save of an erroneous file raised %r" % (e,), None, facts))
            stats["file_roundtrips"] = stats.get("file_roundtrips", 0) + 1
            # torn write inside a multi-byte character: the file is no longer valid UTF-8.  Whatever the library
            # does with it (refuse, pass through), the bytes on disk stay as they are
            wide = [i for i, ch in enumerate(t) if ord(ch) > 127]
            if wide and not out:
                torn = raw[: len(t[: wide[0]].encode("utf-8")) + 1]
                tpath = os.path.join(root, "torn.nix")
                with open(tpath, "wb") as fh:
                    fh.write(torn)
                try:
                    parse_file(tpath).save()
                except Exception:  # noqa: BLE001 - a refusal is fine
                    pass
                with open(tpath, "rb") as fh:
                    left = fh.read()
                stats["torn_multibyte_files"] = stats.get("torn_multibyte_files", 0) + 1
                if left != torn:
                    out.append(Violation("C07.file_touched", "a file torn inside a multi-byte character was rewritten: %r -> %r" % (torn[-30:], left[-30:]), None, facts))
        if not out:
            # mapping-style access must refuse as well and leave the text alone
            for what in ("get", "set", "del"):
                try:
                    if what == "get":
                        src["a"]
                    elif what == "set":
                        src["a"] = 1
                    else:
                        del src["a"]
                except Exception:  # noqa: BLE001
                    pass
                else:
                    out.append(Violation("C07.edited_broken_source", "mapping %s on a text with a syntax error succeeded" % what, None, dict(facts, cmd="map_" + what)))
                    break
                if src.rebuild() != t:
                    out.append(Violation("C07.refusal_mutated", "refused mapping %s changed the erroneous document" % what, None, dict(facts, cmd="map_" + what)))
                    break
    return out


VALUE_POOL = [
    '"v${major}.${minor}"', '"${src}/bin"', '"${toString (1 + 2)}"', '"a${b}c${d}"', "''\n  a ${b}\n  c\n''", "[ 1 (f x) ]", '{ a = "x${y}"; }', "x: x + 1",
    '"plain"', "a.b or c", "./p/q.nix", "if a then b else c", "let a = 1; in a", "{ a, b ? 1 }: a", "with lib; [ a ]", "assert a; b", '"${-src}"', "f { x = 1; } [ 2 ]",
    '"$${x}${y}"', "a // { b = 1; }", "(a: a) 1", "!a && b", '{ "q r" = 1; }', "rec { a = b; b = 1; }",
]


def classify_value(v: str) -> str:
    """ok / zero / many / error, by the independent reader."""
    d = reader.Doc(v)
    if d.has_error():
        return "error"
    tops = [c for c in d.root.named_children if c.type != "comment"]
    if not tops:
        return "zero"
    if len(tops) > 1:
        return "many"
    return "ok"


def execute(case: dict):
    viols: list[Violation] = []
    stats: dict = {}
    keys: list = []
    rng = Streams(case["seed"])("enum")
    base = stored_text(case)
    if base is None or reader.Doc(base).has_error():
        stats["skip:base_invalid"] = 1
        return viols, stats, keys
    root = clisim.scratch_root()
    try:
        if case.get("faults") is not None:
            plans = [case["faults"]]
        elif case["mode"] == "single":
            budget = 260 if case.get("tier") == "quick" else 700
            plans = [[f] for f in single_faults(base, rng, budget=budget)]
        else:
            plans = []
            for _ in range(12 if case.get("tier") == "quick" else 40):
                t = base
                seq = []
                for _k in range(rng.randint(2, 3)):
                    cands = single_faults(t, rng, budget=50)
                    if not cands:
                        break
                    f = rng.choice(cands)
                    seq.append(f)
                    t = apply_fault(t, f)
                plans.append(seq)
        wrap = case.get("wrap")
        for n, plan in enumerate(plans):
            t = base
            for f in plan:
                t = apply_fault(t, f)
            if wrap:
                t = apply_fault(t, wrap)
            kinds = plan[0]["kind"] if len(plan) == 1 else "multi%d" % len(plan)
            stats["faults"] = stats.get("faults", 0) + 1
            if not reader.Doc(t).has_error():
                stats["fault_masked"] = stats.get("fault_masked", 0) + 1
                continue
            stats["fault_effective:" + kinds] = stats.get("fault_effective:" + kinds, 0) + 1
            facts = {"faults": kinds, "wrapped": bool(wrap), "after_edits": len(case.get("pre_ops") or []),
                     "leading_ws": t[:1].isspace() if t else False, "trailing_ws": t[-1:].isspace() if t else False,
                     "plan": plan}
            if t.strip() == "":
                stats["probe:empty_after_damage"] = stats.get("probe:empty_after_damage", 0) + 1
            if plan and plan[-1]["kind"] == "truncate" and plan[-1]["at"] >= len(base) - 1:
                stats["probe:error_in_last_byte"] = stats.get("probe:error_in_last_byte", 0) + 1
            keys.append(digest(t))
            vs = check_damaged(t, facts, stats, root, cli=(n % 7 == 0) or case.get("faults") is not None)
            if vs:
                viols.extend(vs[:1])
                if len(viols) >= 3:
                    break
        # damaged VALUE on the healthy document
        if case.get("value_faults") and not viols:
            from nix_manipulator import parse

            # ... and healthy VALUEs of many kinds damaged in one place (a character deleted, the text cut off, a
            # delimiter inserted) - in particular inside string interpolations, which only a parser sees
            damaged = []
            for _ in range(10):
                hv = rng.choice(VALUE_POOL)
                r = rng.random()
                pos = rng.randrange(len(hv))
                if r < 0.45:
                    damaged.append(hv[:pos] + hv[pos + 1:])
                elif r < 0.7:
                    damaged.append(hv[:pos])
                else:
                    damaged.append(hv[:pos] + rng.choice('"{}()[];$\'') + hv[pos:])
            for v in gen.BAD_VALUES + ["{ a = 1; } { b = 2; }", "1 # c\n2", "[ 1 2 ] ]", "", " ", "\n"] + damaged:
                cls = classify_value(v)
                if cls == "ok":
                    continue
                # every way a `set` can address the document: existing / new / dotted key, existing or new let layer
                for vpath in ["a"] + rng.sample(["zz9", "a.b", "@a", "@zz9", "@@a", '"q r"', "zz9.y.x"], 2):
                    src = parse(base)
                    before = src.rebuild()
                    stats["value_faults:" + cls] = stats.get("value_faults:" + cls, 0) + 1
                    facts = {"faults": "value:" + cls, "value": v, "value_path": vpath}
                    try:
                        res = session.apply_op(src, {"op": "set", "path": vpath, "value": v})
                        viols.append(Violation("C07.bad_value_accepted", "set %s with VALUE %r (%s) accepted: %r" % (vpath, v, cls, res[-80:]), None, facts))
                        break
                    except Exception:  # noqa: BLE001
                        pass
                    if src.rebuild() != before:
                        viols.append(Violation("C07.bad_value_mutated", "set %s: refused VALUE %r changed the document" % (vpath, v), None, facts))
                        break
                if viols:
                    break
    finally:
        shutil.rmtree(root, ignore_errors=True)
    return viols, stats, keys


class DamageProperty:
    engine = "damage"
    level = "fault_enumeration"
    rule = ("one evaluation = one stored document (optionally after 1-2 successful edits) with ALL single truncations, token deletions and token duplications "
            "(capped per document, see counters) plus sampled stray-token insertions, garbage replacements and 2-3 compounded damages, optionally wrapped in whitespace; "
            "each effective damaged text (reader finds ERROR/MISSING) is checked; distinct = distinct damaged texts")
    real = ["nix_manipulator parse/rebuild/set_value/remove_value (real)", "nix_manipulator.cli.main.main in-process (real code)", "real files in a scratch directory"]
    stubbed = ["the storage medium: damage is applied to the text in memory between save and load", "process boundary of the CLI (see C16)"]

    def __init__(self, quick_runs=640, thorough_runs=8000):
        self.pid = "C07"
        self.runs = {"quick": quick_runs, "thorough": thorough_runs}

    def generate(self, seed, tier):
        return generate(seed, tier)

    def execute(self, case):
        return execute(case)

    def refine(self, case, violation):
        """Turn an enumerating case into an explicit single-plan case for replay."""
        plan = violation.facts.get("plan")
        if plan is None or case.get("faults") is not None:
            return case
        c = dict(case)
        c["faults"] = plan
        c["value_faults"] = False
        return c

    def shrink_candidates(self, case):
        if case.get("pre_ops"):
            c = dict(case)
            c["pre_ops"] = []
            yield c
        if case.get("wrap"):
            c = dict(case)
            c["wrap"] = None
            yield c
        if case.get("faults") and len(case["faults"]) > 1:
            for i in range(len(case["faults"])):
                c = dict(case)
                c["faults"] = case["faults"][:i] + case["faults"][i + 1:]
                yield c
