"""Reference models, written from docs/cli.md, docs/api.md and the property
statements (DESIGN.md appendix A) -- never from the implementation.

State of a set = ordered member list as the reader decodes it:
    ('b', segs, value)   value = ('leaf', tokens) | ('set', rec, members)
    ('i', source_tokens|None, names)

Every operation is *total*: for any state it returns one of
    ('ok', kind, info)      kind in replace / insert / remove / create_layer / drop_layer
    ('reject', cls, why)    the edit must be refused with KeyError/ValueError
    ('unspecified', why)    the documentation does not define this combination
"""

from __future__ import annotations

import re

from . import reader

_BARE = re.compile(r"^[A-Za-z_][A-Za-z0-9_']*$")


# ---------------------------------------------------------------------------
# NPath parsing (independent of the implementation's)
# ---------------------------------------------------------------------------


class PathError(Exception):
    pass


class PathUnspecified(Exception):
    """Spelling the documentation does not define (neither valid nor clearly malformed)."""


def parse_npath(npath: str):
    """-> (depth, [decoded segment names]) or raises PathError."""
    depth = 0
    while depth < len(npath) and npath[depth] == "@":
        depth += 1
    rest = npath[depth:]
    if rest == "":
        raise PathError("empty path")
    segs: list[str] = []
    i = 0
    n = len(rest)
    while True:
        if i < n and rest[i] == '"':
            i += 1
            buf = []
            closed = False
            while i < n:
                ch = rest[i]
                if ch == "\\":
                    if i + 1 >= n:
                        raise PathError("dangling escape")
                    nx = rest[i + 1]
                    if nx not in 'nrt"\\':
                        raise PathUnspecified("unknown escape in quoted segment")
                    buf.append({"n": "\n", "r": "\r", "t": "\t"}.get(nx, nx if nx in '"\\' else "\\" + nx))
                    i += 2
                    continue
                if ch == '"':
                    closed = True
                    i += 1
                    break
                buf.append(ch)
                i += 1
            if not closed:
                raise PathError("unterminated quote")
            if i < n and rest[i] != ".":
                raise PathUnspecified("characters after a closing quote")
            segs.append("".join(buf))
        else:
            j = i
            while j < n and rest[j] != ".":
                if rest[j] == '"':
                    raise PathError("quote not at segment boundary")
                j += 1
            name = rest[i:j]
            if "-" in name and _BARE.match(name.replace("-", "_")):
                raise PathUnspecified("hyphen in bare segment (docs allow, grammar unclear)")
            if not _BARE.match(name):
                raise PathError("bad bare segment %r" % name)
            segs.append(name)
            i = j
        if i >= n:
            break
        # rest[i] == '.'
        i += 1
        if i >= n:
            raise PathError("empty trailing segment")
    return depth, segs


def value_of_text(value: str):
    """Decode a VALUE argument: ('ok', value) | ('reject', why)."""
    doc = reader.Doc(value)
    if doc.has_error():
        return ("reject", "value has syntax error")
    tops = [c for c in doc.root.named_children if c.type != "comment"]
    if len(tops) != 1:
        return ("reject", "value has %d expressions" % len(tops))
    return ("ok", reader.value_of(tops[0], False))


# ---------------------------------------------------------------------------
# mutable tree
# ---------------------------------------------------------------------------


def thaw(members):
    out = []
    for m in members:
        if m[0] == "b":
            out.append(["b", list(m[1]), thaw_value(m[2])])
        else:
            out.append(["i", m[1], list(m[2])])
    return out


def thaw_value(v):
    if v[0] == "set":
        return ["set", v[1], thaw(v[2])]
    return ("leaf", tuple(v[1]))


def freeze(members):
    out = []
    for m in members:
        if m[0] == "b":
            out.append(("b", tuple(m[1]), freeze_value(m[2])))
        else:
            out.append(("i", m[1], tuple(m[2])))
    return tuple(out)


def freeze_value(v):
    if v[0] == "set":
        return ("set", v[1], freeze(v[2]))
    return ("leaf", tuple(v[1]))


def _inherit_provides(members, name):
    return any(m[0] == "i" and name in m[2] for m in members)


def _has_dynamic(members) -> bool:
    for m in members:
        if m[0] == "b":
            if any(s.startswith("\x00dyn:") for s in m[1]):
                return True
            if m[2][0] == "set" and _has_dynamic(m[2][2]):
                return True
    return False


def set_in_members(members, segs, value):
    """Apply `set segs value` to a mutable member list (appendix A)."""
    if _has_dynamic(members):
        return ("unspecified", "dynamic attribute names")
    return _set_walk(members, list(segs), value, top=True)


def _set_walk(members, segs, value, top):
    r0 = segs[0]
    n = len(segs)
    exact = [m for m in members if m[0] == "b" and m[1] == segs]
    if len(exact) > 1:
        return ("unspecified", "path defined twice")
    if exact:
        m = exact[0]
        if reader.is_identifier_leaf(m[2]):
            return ("unspecified", "reference")
        if n == 1 and any(x[0] == "b" and len(x[1]) > 1 and x[1][0] == r0 for x in members):
            return ("unspecified", "explicit and attrpath definitions mixed")
        if n > 1 and any(
            x is not m and x[0] == "b" and (x[1][: len(segs)] == segs or segs[: len(x[1])] == x[1]) for x in members
        ):
            return ("unspecified", "overlapping attrpath definitions")
        m[2] = value
        return ("ok", "replace", {"segs": tuple(segs)})
    family = [m for m in members if m[0] == "b" and len(m[1]) > 1 and m[1][0] == r0]
    explicit = [m for m in members if m[0] == "b" and m[1] == [r0]]
    if _inherit_provides(members, r0):
        return ("unspecified", "name provided by inherit")
    if len(explicit) > 1 or (explicit and family):
        # mixed family: a path that exists inside the explicit set is edited there; where a *new* member of such
        # a family should go is not specified
        if len(explicit) == 1 and n > 1 and explicit[0][2][0] == "set" and _exists_in(explicit[0][2][2], segs[1:]):
            family = []
        else:
            return ("unspecified", "explicit and attrpath definitions mixed")
    if n == 1:
        if family:
            return ("reject", "ValueError", "attrpath root overwrite")
        members.append(["b", [r0], value])
        return ("ok", "insert", {"segs": (r0,), "created": 0})
    if explicit:
        m = explicit[0]
        if m[2][0] != "set":
            if reader.is_identifier_leaf(m[2]):
                return ("unspecified", "path through a reference")
            return ("reject", "ValueError", "non-set on path")
        res = _set_walk(m[2][2], segs[1:], value, top=False)
        if res[0] == "ok":
            info = dict(res[2])
            info["segs"] = (r0,) + tuple(info["segs"])
            return ("ok", res[1], info)
        return res
    if family:
        if not top:
            return ("unspecified", "attrpath family below the top level")
        for m in family:
            k = len(m[1])
            if k < n and m[1] == segs[:k]:
                if m[2][0] == "set":
                    return ("unspecified", "explicit set under an attrpath prefix")
                if reader.is_identifier_leaf(m[2]):
                    return ("unspecified", "path through a reference")
                return ("reject", "ValueError", "non-set on path")
            if k > n and m[1][:n] == segs:
                return ("unspecified", "overwrite of an attrpath intermediate")
        members.append(["b", list(segs), value])
        return ("ok", "insert", {"segs": tuple(segs), "created": 0, "attrpath": True})
    # r0 absent: create nested explicit sets
    inner = value
    for s in reversed(segs[1:]):
        inner = ["set", False, [["b", [s], inner]]]
    members.append(["b", [r0], inner])
    return ("ok", "insert", {"segs": (r0,), "created": n - 1})


def _exists_in(members, segs) -> bool:
    """Does the path exist through explicit single-segment bindings only (and exactly once per level)?"""
    cur = members
    for k, seg in enumerate(segs):
        hits = [m for m in cur if m[0] == "b" and m[1] == [seg]]
        if len(hits) != 1 or any(m[0] == "b" and len(m[1]) > 1 and m[1][0] == seg for m in cur):
            return False
        if k == len(segs) - 1:
            return True
        if hits[0][2][0] != "set":
            return False
        cur = hits[0][2][2]
    return False


def rm_in_members(members, segs):
    if _has_dynamic(members):
        return ("unspecified", "dynamic attribute names")
    return _rm_walk(members, list(segs), top=True)


def _rm_walk(members, segs, top):
    r0 = segs[0]
    n = len(segs)
    exact = [m for m in members if m[0] == "b" and m[1] == segs]
    if len(exact) > 1:
        return ("unspecified", "path defined twice")
    family = [m for m in members if m[0] == "b" and len(m[1]) > 1 and m[1][0] == r0]
    explicit = [m for m in members if m[0] == "b" and m[1] == [r0]]
    if explicit and family and not (exact and n > 1 and top):
        # (removing one attrpath-spelled member of a mixed family is plain: exactly that binding goes; so is a
        # path that exists inside the explicit set)
        if len(explicit) == 1 and n > 1 and explicit[0][2][0] == "set" and _exists_in(explicit[0][2][2], segs[1:]):
            family = []
        else:
            return ("unspecified", "explicit and attrpath definitions mixed")
    if exact:
        m = exact[0]
        if n > 1 and not top:
            return ("unspecified", "attrpath family below the top level")
        if n > 1 and any(x is not m and x[0] == "b" and x[1][:n] == segs for x in members):
            return ("unspecified", "overlapping attrpath definitions")
        members.remove(m)
        return ("ok", "remove", {"segs": tuple(segs)})
    if _inherit_provides(members, r0):
        return ("unspecified", "name provided by inherit")
    if n == 1:
        if family:
            return ("reject", "KeyError", "attrpath root")
        return ("reject", "KeyError", "missing key")
    if explicit:
        m = explicit[0]
        if m[2][0] != "set":
            if reader.is_identifier_leaf(m[2]):
                return ("unspecified", "path through a reference")
            return ("reject", "ValueError", "non-set on path")
        res = _rm_walk(m[2][2], segs[1:], top=False)
        if res[0] == "ok":
            info = dict(res[2])
            info["segs"] = (r0,) + tuple(info["segs"])
            return ("ok", res[1], info)
        return res
    if family:
        if not top:
            return ("unspecified", "attrpath family below the top level")
        for m in family:
            k = len(m[1])
            if k > n and m[1][:n] == segs:
                return ("unspecified", "removal of an attrpath intermediate")
            if k < n and m[1] == segs[:k]:
                if m[2][0] == "set":
                    return ("unspecified", "explicit set under an attrpath prefix")
                return ("reject", "ValueError", "non-set on path")
        return ("reject", "KeyError", "missing key")
    return ("reject", "KeyError", "missing key")


# ---------------------------------------------------------------------------
# whole document: let layers (innermost first) + target set
# ---------------------------------------------------------------------------


class DocModel:
    """Editable document as the documentation describes it."""

    def __init__(self, decoded: reader.Decoded):
        self.editable = decoded.shape.editable
        self.reason = decoded.shape.reason
        self.kinds = decoded.shape.kinds() if self.editable else []
        self.outer_kinds = decoded.shape.outer_kinds() if self.editable else []
        self.layers = [thaw(reader.strip_ext(l)) for l in decoded.layers]
        self.target = thaw(reader.strip_ext(decoded.target)) if self.editable else []
        self.error = decoded.error

    def snapshot(self):
        return (tuple(freeze(l) for l in self.layers), freeze(self.target))

    def outer_lets(self) -> int:
        """let wrappers that are not directly around the target."""
        return sum(1 for k in self.outer_kinds if k == "let")

    def apply(self, op: dict):
        """Predict the outcome of a set/rm and update the state when 'ok'."""
        kind = op["op"]
        if self.error:
            return ("reject", "ValueError", "source has syntax error")
        value = None
        if kind == "set":
            v = value_of_text(op["value"])
            if v[0] == "reject":
                return ("reject", "ValueError", v[1])
            value = thaw_value(v[1])
        try:
            depth, segs = parse_npath(op["path"])
        except PathUnspecified as exc:
            return ("unspecified", "path spelling: %s" % exc)
        except PathError as exc:
            return ("reject", "ValueError", "malformed path: %s" % exc)
        if not self.editable:
            return ("reject", "ValueError", "not an editable shape: %s" % self.reason)
        if depth == 0:
            if kind == "set":
                return set_in_members(self.target, segs, value)
            return rm_in_members(self.target, segs)
        # scoped
        if depth > len(self.layers):
            if kind == "set" and depth == 1 and not self.layers:
                if self.outer_lets():
                    return ("unspecified", "let separated from the target by another wrapper")
                # documented corner: no layer at all -> create exactly one
                body_has = any(m[0] == "b" and m[1][0] == segs[0] for m in self.target) or _inherit_provides(
                    self.target, segs[0]
                )
                if body_has:
                    return ("unspecified", "scoped set without layer, name present in body")
                if len(segs) != 1:
                    inner = value
                    for s in reversed(segs[1:]):
                        inner = ["set", False, [["b", [s], inner]]]
                    self.layers.insert(0, [["b", [segs[0]], inner]])
                    return ("ok", "create_layer", {"segs": (segs[0],), "created": len(segs) - 1})
                self.layers.insert(0, [["b", [segs[0]], value]])
                return ("ok", "create_layer", {"segs": tuple(segs), "created": 0})
            if self.outer_lets():
                return ("unspecified", "let separated from the target by another wrapper")
            return ("reject", "ValueError", "missing scope layer")
        layer = self.layers[depth - 1]
        if kind == "set":
            res = set_in_members(layer, segs, value)
            if res[0] == "ok":
                info = dict(res[2])
                info["layer"] = depth
                return ("ok", res[1], info)
            return res
        res = rm_in_members(layer, segs)
        if res[0] == "ok":
            info = dict(res[2])
            info["layer"] = depth
            if not layer:
                del self.layers[depth - 1]
                return ("ok", "drop_layer", info)
            return ("ok", res[1], info)
        return res
