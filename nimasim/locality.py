"""C04 oracle: an edit touches only the binding it addresses.

All extents come from the independent reader applied to the *before* text.
Token clause (always) + comment clause (always) + byte clause (only when the
before text is a fixed point of parse/rebuild, i.e. canonical).
"""

from __future__ import annotations

import bisect

from . import gen, reader
from .model import PathError, PathUnspecified, parse_npath, value_of_text


class Edit:
    """Where an operation lands in the before text, in token indices."""

    def __init__(self):
        self.kind = None  # replace / insert / remove / create_layer / drop_layer
        self.i = self.j = 0  # token range [i, j) of the before text that goes away
        self.new_tokens: tuple = ()  # tokens that take its place
        self.core = None  # (start_byte, end_byte) of the addressed binding / let head in before
        self.why = None  # reason the edit cannot be located (skip)
        self.closing = None  # (token index, tokens) inserted behind the target (closing parenthesis)
        self.alt_drop = None  # token indices of a parenthesis pair that may disappear together with the let


def _tok_range(starts, ends, s, e):
    """Token index range lying inside byte extent [s, e)."""
    i = bisect.bisect_left(starts, s)
    j = bisect.bisect_right(starts, e - 1) if e > s else i
    return i, j


def _members_nodes(container):
    out = []
    for c in container.named_children:
        if c.type == "binding_set":
            out.extend(x for x in c.named_children if x.type != "comment")
    return out


def _segs_of(binding):
    ap = binding.child_by_field_name("attrpath")
    return [reader.decode_attr(s) for s in ap.named_children if s.type != "comment"]


def _close_token(container):
    want = "in" if container.type == "let_expression" else "}"
    for c in container.children:
        if c.type == want:
            return c
    return None


def binding_tokens(segs, value_text: str, created: int, attrpath: bool) -> tuple:
    """Token sequence of the binding that an insert is expected to add."""
    # the value goes on lines of its own so that a trailing `# comment` in it cannot swallow what follows
    vt = "\n" + value_text + "\n"
    if attrpath or created == 0:
        text = ".".join(gen.fmt_name(s) for s in segs) + " =" + vt + ";"
    else:
        inner = gen.fmt_name(segs[-1]) + " =" + vt + ";"
        for s in reversed(segs[1:-1]):
            inner = gen.fmt_name(s) + " = { " + inner + " };"
        text = gen.fmt_name(segs[0]) + " = { " + inner + " };"
    toks = reader.tokens_of_text("{ " + text + " }")
    return tuple(toks[1:-1])


def locate(st) -> Edit:
    """Translate the model's verdict for a step into token ranges of the before text."""
    ed = Edit()
    dec = st.dec_before
    kind, info = st.pred[1], st.pred[2]
    ed.kind = kind
    doc = dec.doc
    toks = doc.tokens()
    starts = [t[1] for t in toks]
    ends = [t[2] for t in toks]
    try:
        depth, segs = parse_npath(st.op["path"])
    except (PathError, PathUnspecified):
        ed.why = "path"
        return ed
    layers = dec.shape.layers()
    if depth == 0:
        container = dec.shape.target
    elif kind == "create_layer":
        container = None
    else:
        container = layers[depth - 1]
    value_text = st.op.get("value", "")

    if kind == "create_layer":
        tgt = dec.shape.target
        k, k_end = _tok_range(starts, ends, tgt.start_byte, tgt.end_byte)
        ed.i = ed.j = k
        bt = binding_tokens(segs, value_text, info.get("created", 0), False)
        ed.new_tokens = ("let",) + bt + ("in",)
        if dec.shape.kinds()[-1:] == ["call"]:
            # a let in argument position needs parentheses: `f (let … in { … })`
            ed.new_tokens = ("(",) + ed.new_tokens
            ed.closing = (k_end, (")",))
        return ed
    if kind == "drop_layer":
        let = container
        body = let.child_by_field_name("body")
        i, _ = _tok_range(starts, ends, let.start_byte, let.end_byte)
        j, _ = _tok_range(starts, ends, body.start_byte, body.end_byte)
        ed.i, ed.j = i, j
        inn = _close_token(let)
        ed.core = (let.start_byte, inn.end_byte)
        par = let.parent
        if par is not None and par.type == "parenthesized_expression" and par.parent is not None and par.parent.type == "apply_expression" and len(layers) == 1:
            # `f (let … in { … })`: with the only layer gone the parentheses are no longer needed
            pi, pj = _tok_range(starts, ends, par.start_byte, par.end_byte)
            ed.alt_drop = (pi, pj - 1)  # token indices of "(" and ")"
        return ed

    # walk down explicit sets
    cur = container
    rest = list(segs)
    while True:
        exact = [b for b in _members_nodes(cur) if b.type == "binding" and _segs_of(b) == rest]
        if exact:
            b = exact[0]
            if kind == "replace":
                ex = b.child_by_field_name("expression")
                ed.i, ed.j = _tok_range(starts, ends, ex.start_byte, ex.end_byte)
                v = value_of_text(value_text)
                ed.new_tokens = reader.tokens_of_text(value_text)
                ed.core = (ex.start_byte, ex.end_byte)
                return ed
            if kind == "remove":
                ed.i, ed.j = _tok_range(starts, ends, b.start_byte, b.end_byte)
                ed.core = (b.start_byte, b.end_byte)
                return ed
            ed.why = "exact member but kind %s" % kind
            return ed
        step = [b for b in _members_nodes(cur) if b.type == "binding" and _segs_of(b) == rest[:1]]
        if step and len(rest) > 1:
            ex = step[0].child_by_field_name("expression")
            if ex.type in reader.SET_TYPES:
                cur = ex
                rest = rest[1:]
                continue
        break
    if kind != "insert":
        ed.why = "member not found for %s" % kind
        return ed
    close = _close_token(cur)
    if close is None:
        ed.why = "no closing token"
        return ed
    k, _ = _tok_range(starts, ends, close.start_byte, close.end_byte)
    ed.i = ed.j = k
    ed.new_tokens = binding_tokens(rest, value_text, info.get("created", 0), info.get("attrpath", False))
    return ed


def _line_of(data: bytes, offset: int) -> int:
    return data.count(b"\n", 0, offset)


def check_step(st, *, canonical: bool):
    """-> list of (oracle_suffix, message); empty when the edit is local."""
    problems: list[tuple[str, str]] = []
    ed = locate(st)
    if ed.why:
        return [("skip", ed.why)]
    before = st.dec_before.doc
    after = st.dec_out.doc
    btoks = before.tokens()
    atoks = after.tokens()
    bt = [t[0] for t in btoks]
    at = [t[0] for t in atoks]
    i, j = ed.i, ed.j
    new = list(ed.new_tokens)
    m = len(new)
    expected = bt[:i] + new + bt[j:]
    if ed.closing is not None:
        ci, ctoks = ed.closing
        expected = bt[:i] + new + bt[j:ci] + list(ctoks) + bt[ci:]
        canonical = False  # the body moves into parentheses and is re-indented: token and comment clauses only
    if at != expected and ed.alt_drop is not None:
        po, pc = ed.alt_drop
        alt = [t for k, t in enumerate(bt) if not (i <= k < j) and k not in (po, pc)]
        if at == alt:
            return [("skip", "parens_removed_with_layer")]
    if at != expected:
        # find first difference for the message
        k = 0
        while k < min(len(at), len(expected)) and at[k] == expected[k]:
            k += 1
        problems.append(("tokens", "token sequence outside the addressed binding changed near token %d: expected …%r got …%r" % (k, expected[max(0, k - 3):k + 5], at[max(0, k - 3):k + 5])))
        return problems

    # ---- comments ------------------------------------------------------
    bdata, adata = before.data, after.data
    bstarts = [t[1] for t in btoks]
    astarts = [t[1] for t in atoks]
    must: list[tuple] = []  # (text, allowed anchors in after, "before"/"after" the edit)
    must_ext: list[tuple[int, int]] = []  # byte extents (before text) of must-survive comments
    optional: list[str] = []
    last_member = False
    if ed.kind == "remove" and j < len(btoks):
        last_member = btoks[j][0] in ("}", "in")
    for text, s, e in before.comments():
        a = bisect.bisect_left(bstarts, s)
        n_must = len(must)
        if a < i:
            must.append((text, (a,), "before"))
        elif a > j:
            shift = a - (j - i) + m
            if ed.closing is not None and a >= ed.closing[0]:
                extra = len(ed.closing[1])
                # a comment right behind the target may end up inside or outside the new parenthesis
                must.append((text, (shift + extra,) if a > ed.closing[0] else (shift, shift + extra), "after"))
            else:
                must.append((text, (shift,), "after"))
        elif i < a < j:
            optional.append(text)
        elif ed.kind in ("insert", "create_layer"):
            must.append((text, (i, i + m), "at"))
        elif ed.kind == "replace":
            optional.append(text)
        else:  # remove / drop_layer, comment adjacent to the removed tokens
            if a == i and i < j:
                prev_end = btoks[i - 1][2] if i > 0 else None
                if prev_end is not None and _line_of(bdata, prev_end) == _line_of(bdata, s):
                    must.append((text, (i,), "before"))  # end-of-line comment of the previous member
                elif ed.kind == "drop_layer":
                    must.append((text, (i,), "before"))
                else:
                    optional.append(text)  # own-line comment in front of the removed binding
            else:  # a == j
                last_end = btoks[j - 1][2]
                if _line_of(bdata, last_end) == _line_of(bdata, s) and ed.kind == "remove":
                    optional.append(text)  # end-of-line comment of the removed binding
                elif last_member:
                    optional.append(text)  # trailing comment behind the removed last member: ambiguous
                else:
                    must.append((text, (i + m,), "after"))
        if len(must) > n_must:
            must_ext.append((s, e))
    got = [(text, bisect.bisect_left(astarts, s)) for text, s, e in after.comments()]
    gi = 0
    opt = list(optional)
    if st.op.get("value"):
        opt.extend(c[0] for c in reader.Doc(st.op["value"]).comments())  # comments that came in with the new value
    for text, anchors, rel in must:
        while gi < len(got) and not (got[gi][0] == text and got[gi][1] in anchors):
            if got[gi][0] in opt:
                opt.remove(got[gi][0])
                gi += 1
                continue
            break
        if gi >= len(got) or not (got[gi][0] == text and got[gi][1] in anchors):
            problems.append(("comment:" + rel, "comment %r (%s the addressed binding) lost or moved" % (text, rel)))
            return problems
        gi += 1
    for text, _ in got[gi:]:
        if text in opt:
            opt.remove(text)
        else:
            problems.append(("comment", "unexpected comment %r in the output" % text))
            return problems

    if not canonical:
        return problems

    # ---- bytes -----------------------------------------------------------
    pre_b = btoks[i - 1][2] if i > 0 else 0
    pre_a = atoks[i - 1][2] if i > 0 else 0
    post_b = btoks[j][1] if j < len(btoks) else len(bdata)
    post_a = atoks[i + m][1] if i + m < len(atoks) else len(adata)
    if i == 0:
        # nothing but trivia in front: leading trivia must be identical up to the first kept token
        pass
    if bdata[:pre_b] != adata[:pre_a]:
        k = 0
        while k < min(pre_b, pre_a) and bdata[k] == adata[k]:
            k += 1
        problems.append(("bytes", "text before the addressed binding changed at byte %d: %r -> %r" % (k, bdata[max(0, k - 20):k + 20], adata[max(0, k - 20):k + 20])))
        return problems
    if bdata[post_b:] != adata[post_a:]:
        tb, ta = bdata[post_b:], adata[post_a:]
        if tb.rstrip(b"\n") == ta.rstrip(b"\n"):
            problems.append(("bytes_final_newline", "final newline of the file changed: %r -> %r" % (tb[-20:], ta[-20:])))
            return problems
        k = 0
        while k < min(len(tb), len(ta)) and tb[len(tb) - 1 - k] == ta[len(ta) - 1 - k]:
            k += 1
        problems.append(("bytes", "text after the addressed binding changed: …%r -> …%r" % (tb[max(0, len(tb) - k - 20):len(tb) - k + 10], ta[max(0, len(ta) - k - 20):len(ta) - k + 10])))
        return problems
    rb = bdata[pre_b:post_b]
    ra = adata[pre_a:post_a]
    if ed.kind == "replace":
        s, e = ed.core
        gap1 = bdata[pre_b:s]
        gap2 = bdata[e:post_b]
        if gap1.strip() == b"" and gap2.strip() == b"" and b"\n" not in gap1 and b"\n" not in gap2:
            if not (ra.startswith(gap1) and ra.endswith(gap2) and len(ra) >= len(gap1) + len(gap2)):
                problems.append(("bytes", "layout around the replaced value changed: %r -> %r" % (rb, ra)))
            else:
                x = ra[len(gap1):len(ra) - len(gap2)] if gap2 else ra[len(gap1):]
                if x != x.strip():
                    problems.append(("bytes", "replaced value gained surrounding whitespace: %r -> %r" % (rb, ra)))
    elif ed.kind in ("insert", "create_layer"):
        if rb.strip() != b"":
            # window holds comments: the new text must be spliced in, the rest kept byte for byte
            ok = False
            for k in range(len(rb) + 1):
                if ra.startswith(rb[:k]) and ra.endswith(rb[k:]) and len(ra) >= len(rb):
                    ok = True
                    break
            if not ok:
                problems.append(("bytes", "comments/layout next to the inserted binding changed: %r -> %r" % (rb, ra)))
    else:  # remove / drop_layer
        s, e = ed.core
        rs, re_ = s - pre_b, e - pre_b
        lcp = 0
        while lcp < min(len(ra), rs) and ra[lcp] == rb[lcp]:
            lcp += 1
        lcs = 0
        while lcs < min(len(ra), len(rb) - re_) and ra[len(ra) - 1 - lcs] == rb[len(rb) - 1 - lcs]:
            lcs += 1
        verdict = "rewrote"
        for p in range(lcp, -1, -1):
            for q in range(min(lcs, len(ra) - p), -1, -1):
                if ra[p:len(ra) - q].strip() != b"":
                    continue
                g_s, g_e = pre_b + p, pre_b + len(rb) - q
                hit = [text for (text, _a, _r), (cs, ce) in zip(must, must_ext) if cs < g_e and ce > g_s]
                if not hit:
                    verdict = "ok"
                    break
                verdict = "took:" + hit[0]
            if verdict == "ok":
                break
        if verdict == "rewrote":
            problems.append(("bytes", "removal rewrote neighbouring text: %r -> %r" % (rb, ra)))
        elif verdict != "ok":
            problems.append(("bytes", "removal also took the comment %r" % verdict[5:]))
    return problems
