"""Construct zoo: one Nix construct per document, every gap between its tokens
drawn from a small alphabet of whitespace / line-level comment shapes.

Used as start states for C06 (rebuilt text must be a fixed point) and as
documents for C15 (results must not depend on what was processed before, on
threads or on configuration).  One construct per document keeps a violation's
region narrow: (construct, gap kind per slot).
"""

from __future__ import annotations

GAP_KINDS = ["sp", "nl", "blank", "eolc", "eolc_blank", "ownc", "sp2", "ownc_blank", "blank_ownc", "ownblock", "ownblock_ml", "ownblock_ml2"]


class Zoo:
    def __init__(self, rng, tag: int):
        self.rng = rng
        self.tag = tag
        self.k = 0
        self.slots: list[str] = []
        self.extra: dict = {}
        self.depth = 0
        self.nest_p = 0.0
        self.one_line = False
        self.extra_nested = None

    def lit(self) -> str:
        self.k += 1
        return str(self.tag * 100 + self.k)

    NESTABLE = ["binop", "if", "apply", "let", "with", "assert", "lambda", "has_attr", "select", "list", "set", "formals"]

    def atom(self) -> str:
        if self.depth == 0 and self.rng.random() < self.nest_p:
            # a construct inside the construct: written on one line, in parentheses (what it renders to is the
            # library's business - a one-line `let` comes back on several lines inside whatever holds it)
            self.depth += 1
            kind = self.rng.choice(self.NESTABLE)
            saved = self.one_line
            self.one_line = True
            try:
                inner = self.construct(kind, "")
            finally:
                self.one_line = saved
                self.depth -= 1
            self.extra_nested = kind
            return "(" + inner + ")" if kind not in ("list", "set") else inner
        r = self.rng.random()
        if r < 0.4:
            return self.lit()
        if r < 0.6:
            return self.rng.choice(["a", "b", "lib", "pkgs"])
        if r < 0.75:
            return '"s%s"' % self.lit()
        if r < 0.85:
            return "[ %s %s ]" % (self.lit(), self.lit())
        if r < 0.9:
            return "./p%s" % self.lit()
        if r < 0.95:
            # a multi-line indented string as operand / body / argument (absorbable term)
            return "''\n      w%s\n\n        v\n    ''" % self.lit()
        return "{ z = %s; }" % self.lit()

    def gap(self, ind: str, *, allow_empty: bool = False, weights=None) -> str:
        kinds = GAP_KINDS
        if self.one_line:
            self.slots.append("sp")
            return " "
        w = list(weights or [6, 3, 1, 1, 1, 1, 0.5, 0.7, 0.7])
        w += [0.0] * (len(kinds) - len(w)) if weights else [0.4, 0.4, 0.3]
        kind = self.rng.choices(kinds, weights=w)[0]
        self.slots.append(kind)
        self.k += 1
        c = "# c%d" % self.k
        return {
            "sp": " ",
            "sp2": "  ",
            "nl": "\n" + ind,
            "blank": "\n\n" + ind,
            "eolc": " " + c + "\n" + ind,
            "eolc_blank": " " + c + "\n\n" + ind,
            "ownc": "\n" + ind + c + "\n" + ind,
            "ownc_blank": "\n" + ind + c + "\n\n" + ind,
            "blank_ownc": "\n\n" + ind + c + "\n" + ind,
            # block comments alone on their lines: one line; several lines with the text on the opener's and the
            # closer's line (continuation at an odd column); several lines with opener and closer on lines of their own
            "ownblock": "\n" + ind + "/* b%d */" % self.k + "\n" + ind,
            "ownblock_ml": "\n" + ind + " /* b%d\n" % self.k + ind + "      more\n" + ind + "   end */\n" + ind,
            "ownblock_ml2": "\n" + ind + "/*\n" + ind + "  b%d\n" % self.k + ind + "*/\n" + ind,
        }[kind]

    def construct(self, kind: str, ind: str) -> str:
        g = lambda: self.gap(ind)  # noqa: E731
        a = self.atom
        if kind == "binop":
            op = self.rng.choice(["+", "++", "//", "&&", "||", "==", "->"])
            parts = [a()]
            n_ops = self.rng.randint(1, 2)
            after_op = "sp"
            for _ in range(n_ops):
                parts += [g(), op]
                parts += [g(), a()]
                after_op = self.slots[-1]
            self.extra = {"binop_chain": n_ops, "comment_after_last_op": after_op in ("eolc", "eolc_blank", "ownc", "ownc_blank", "blank_ownc")}
            return "".join(parts)
        if kind == "if":
            return "if" + g() + a() + g() + "then" + g() + a() + g() + "else" + g() + a()
        if kind == "apply":
            out = self.rng.choice(["f", "lib.mk", "callPackage"])
            for _ in range(self.rng.randint(1, 2)):
                out += g() + a()
            return out
        if kind == "list":
            out = "["
            for _ in range(self.rng.randint(0, 3)):
                out += g() + a()
            return out + g() + "]"
        if kind == "set":
            out = self.rng.choice(["{", "rec {"])
            for i in range(self.rng.randint(0, 3)):
                out += g() + "k%d" % i + " = " + a() + ";"
            return out + g() + "}"
        if kind == "let":
            out = "let"
            for i in range(self.rng.randint(1, 2)):
                out += g() + "v%d" % i + " = " + a() + ";"
            return out + g() + "in" + g() + a()
        if kind == "with":
            # (the body is an absorbable multi-line term in one case out of four: a `with` glues such a body to its own line)
            body = a() if self.rng.random() >= 0.25 or self.one_line else "''\n      w%s\n\n        v\n    ''" % self.lit()
            return "with" + g() + "lib;" + g() + body
        if kind == "assert":
            return "assert" + g() + "a;" + g() + a()
        if kind == "lambda":
            head = self.rng.choice(["x:", "{ a, b }:", "{ a ? 1, ... }:", "args@{ a, ... }:"])
            return head + g() + a()
        if kind == "formals":
            # an argument set with arbitrary gaps between its tokens (the grammar has no trailing comma: the last
            # formal is followed by the gap and the closing brace)
            names = self.rng.sample(["a", "b", "c", "d"], self.rng.randint(1, 3))
            items = [n if self.rng.random() < 0.7 else "%s ? %s" % (n, self.lit()) for n in names]
            if self.rng.random() < 0.5:
                items.append("...")
            out = self.rng.choice(["", "", "args@"]) + "{"
            for i, it in enumerate(items):
                out += g() + it + ("," if i < len(items) - 1 else "")
            return out + g() + "}:" + g() + a()
        if kind == "select":
            return self.rng.choice(["a.b.c", "a.b or" + g() + a(), "(f x).y", "a.b" + g() + "or" + g() + a()])
        if kind == "has_attr":
            return "a" + g() + "?" + g() + "b"
        if kind == "unary":
            return self.rng.choice(["!", "-"]) + self.rng.choice(["a", "(a)"])
        if kind == "paren":
            return "(" + g() + a() + g() + ")"
        if kind == "string":
            return self.rng.choice(['"a${b}c"', "''\n" + ind + "  line1\n" + ind + "  ${b} line2\n" + ind + "''", '"a\\nb"', "''x''"])
        if kind == "inherit":
            # as a *member* (document() puts it into a set or let): plain and `(source)` forms, the source
            # possibly spanning several lines, names separated by arbitrary gaps
            names = self.rng.sample(["a", "b", "lib", "pkgs", "zz"], self.rng.randint(1, 3))
            out = "inherit"
            if self.rng.random() < 0.6:
                src = self.rng.choice([
                    "lib", "pkgs.lib", "import ./x.nix { }", "import ./x.nix {\n" + ind + "  inherit lib;\n" + ind + "}",
                    "{ a = 1; b = 2; }", "{\n" + ind + "  a = 1;\n" + ind + "}", "f {\n" + ind + "  x = " + self.lit() + ";\n" + ind + "}",
                ])
                out += g() + "(" + src + ")"
            for n in names:
                out += g() + n
            return out
        raise ValueError(kind)

    KINDS = ["binop", "if", "apply", "list", "set", "let", "with", "assert", "lambda", "select", "has_attr", "unary", "paren", "string", "merge", "inherit", "formals"]

    MERGE_NAMES = ["enable", "port", "host", "workers", "user", "group", "extraArgs", "package", "q", "zz"]

    def merge_document(self):
        """The same attrpath defined several times with set literals (Nix merges them; so does the parser):
        later definitions bring one or several new names, optionally a nested family, in a set or a let layer."""
        rng = self.rng
        root = rng.choice(["s", "services.web", "a.b.c"])
        names = list(self.MERGE_NAMES)
        rng.shuffle(names)
        lines = []
        for _ in range(rng.randint(2, 3)):
            n = rng.randint(1, 4)
            take, names = names[:n], names[n:]
            inner = " ".join("%s = %s;" % (k, self.atom() if rng.random() < 0.7 else "{ %s = %s; }" % (rng.choice(["u", "v"]), self.lit())) for k in take)
            if "." in root and rng.random() < 0.8:
                lines.append("%s = { %s };" % (root, inner))
            else:
                lines.append("%s.%s = { %s };" % (root, rng.choice(["m", "n"]), inner))
            if rng.random() < 0.3:
                lines.append("k%d = %s;" % (self.k, self.lit()))
        in_let = rng.random() < 0.3
        body = "\n".join("  " + ln for ln in lines)
        if in_let:
            text = "let\n" + body + "\nin\n{\n  x = 1;\n}\n"
        else:
            text = "{\n" + body + "\n}\n"
        self.slots = []
        return text, {"construct": "merge", "place": "let_layer" if in_let else "set", "gaps": [], "gap_seq": [root, len(lines)]}

    def document(self):
        """-> (text, facts).  `{ k = <construct>; … }` optionally under a wrapper or as the top-level expression."""
        rng = self.rng
        kind = rng.choice(self.KINDS)
        if kind == "merge":
            return self.merge_document()
        if kind == "inherit":
            self.slots = []
            self.extra = {}
            in_let = rng.random() < 0.3
            member = self.construct("inherit", "    ")
            if in_let:
                text = "let\n  " + member + ";\n  k = 1;\nin\n{\n  x = k;\n}\n"
            else:
                text = "{\n  pre = 1;\n  " + member + ";\n  post = 2;\n}\n"
            return text, {"construct": "inherit", "place": "let_layer" if in_let else "set", "gaps": sorted(set(self.slots)), "gap_seq": list(self.slots)}
        place = rng.choice(["binding"] * 6 + ["toplevel", "let_binding", "list_item"] * 2 + ["inline_list", "formal_default", "inline_set", "call_arg"])
        self.slots = []
        self.extra = {}
        self.extra_nested = None
        self.nest_p = rng.choice([0.0, 0.0, 0.15, 0.4])
        if place in ("inline_list", "formal_default", "inline_set", "call_arg"):
            # the construct is written on one line inside a one-line holder
            self.one_line = True
            try:
                val = self.construct(kind, "")
            finally:
                self.one_line = False
            wrapped = val if kind in ("list", "set", "string", "paren") or (kind == "select" and " or" not in val) else "(" + val + ")"
            holder = {
                "inline_list": "[ 1 %s ]",
                "formal_default": "{ a ? %s, b }: a",
                "inline_set": "{ k = %s; j = 2; }",
                "call_arg": "f %s 2",
            }[place]
            if place in ("formal_default", "inline_set"):
                wrapped = val  # no parentheses needed in these positions
            body = holder % wrapped
            text = rng.choice(["%s\n", "{\n  v = %s;\n}\n"]) % body
            facts = {"construct": kind, "place": place, "gaps": ["sp"], "gap_seq": [kind, place, self.extra_nested, text.count("\n")], "nested": self.extra_nested}
            return text, facts
        if place == "toplevel":
            body = self.construct(kind, "")
            text = body + "\n"
        elif place == "binding":
            val = self.construct(kind, "    ")
            sep = self.gap("    ", weights=[8, 2, 0, 0, 0, 0, 0.3, 0, 0])
            # (one binding in five carries an end-of-line comment of its own behind the semicolon, or the semicolon
            # stands on the next line)
            r = rng.random()
            tail = ";" if r < 0.75 else (rng.choice(["; # t", "\n  ; # t", " # s\n  ; # t", "\n  ;", "\n    # w\n    ;", "\n  # w\n  ; # t", "\n    # w\n\n    # v\n    ;"]))
            self.extra["binding_tail"] = tail.replace("\n", "|")
            text = "{\n  pre = 1;\n  k =" + sep + val + tail + "\n  post = 2;\n}\n"
        elif place == "let_binding":
            val = self.construct(kind, "    ")
            text = "let\n  k = " + val + ";\nin\n{\n  x = k;\n}\n"
        else:
            val = self.construct(kind, "    ")
            if kind in ("binop", "if", "apply", "let", "with", "assert", "lambda", "has_attr", "unary", "select", "formals"):
                val = "(" + val + ")"
            text = "{\n  l = [\n    1\n    " + val + "\n    3\n  ];\n}\n"
        facts = {"construct": kind, "place": place, "gaps": sorted(set(self.slots)), "gap_seq": list(self.slots), "nested": self.extra_nested}
        facts.update(self.extra)
        return text, facts
