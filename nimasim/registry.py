"""C10: document-lifetime simulator over the process-wide resolution registry.

A pool of live documents; seeded events create / traverse+resolve / assign
through a reference / edit a scope binding / take an ``inherit`` lookup copy /
drop all references / ``gc.collect()``.  Automatic garbage collection is
disabled, so weak-reference callbacks and address reuse happen only at
scheduled points.  Oracle: the independent resolver (resolver.py) applied to
the document's current text; literals are tagged per document so a value from
another document is recognisable.
"""

from __future__ import annotations

import gc
import os
import sys

from . import reader, resolver, scopegen
from .core import Streams, Violation, digest

STEP_BUDGET = 60000


class BudgetExceeded(BaseException):
    pass


class StepBudget:
    """Counts line events inside nix_manipulator; raises when the budget is spent."""

    def __init__(self, limit: int, prefix: str):
        self.limit = limit
        self.prefix = prefix
        self.steps = 0

    def __enter__(self):
        def local(frame, event, arg):
            if event == "line":
                self.steps += 1
                if self.steps > self.limit:
                    raise BudgetExceeded()
            return local

        def glob(frame, event, arg):
            if frame.f_code.co_filename.startswith(self.prefix):
                return local
            return None

        self._old = sys.gettrace()
        sys.settrace(glob)
        return self

    def __exit__(self, *a):
        sys.settrace(self._old)
        return False


def generate(seed: int, tier: str) -> dict:
    st = Streams(seed)
    rng = st("registry")
    ndocs = rng.randint(2, 6 if tier == "thorough" else 4)
    docs = []
    base = seed % 800 + 100
    for i in range(ndocs):
        g = scopegen.ScopeGen(st("doc%d" % i), base + i, max_wrappers=rng.choice([1, 2, 3, 4, 5]))
        docs.append(g.program())
    events: list[dict] = []
    live: set[int] = set()
    held: dict[int, int] = {}
    n = rng.randint(6, 30 if tier == "thorough" else 18)
    tag = 0
    for _ in range(n):
        r = rng.random()
        if not live or r < 0.12:
            d = rng.randrange(ndocs)
            events.append({"ev": "create", "d": d})
            live.add(d)
            held[d] = 0
            continue
        d = rng.choice(sorted(live))
        long_probes = [p for p in docs[d]["probes"] + docs[d].get("deref_probes", []) if len(p) >= 2 and p[1] != "->"]
        if long_probes and r > 0.5 and r < 0.6:
            # keep a handle to a nested expression now, use it later (after other documents came and went)
            events.append({"ev": "hold", "d": d, "probe": rng.choice(long_probes)})
            held[d] = held.get(d, 0) + 1
            continue
        if r > 0.40 and r <= 0.45:
            # many short-lived documents: whatever bookkeeping the registry does per entry gets exercised
            events.append({"ev": "churn", "n": rng.choice([20, 60, 150])})
            continue
        holders = sorted(x for x in live if held.get(x))
        if holders and r > 0.25 and r <= 0.5:
            events.append({"ev": "resolve_held", "d": rng.choice(holders), "k": rng.randrange(4)})
            continue
        if r < 0.6:
            probe = rng.choice(docs[d]["probes"])
            if docs[d].get("deref_probes") and rng.random() < 0.3:
                probe = rng.choice(docs[d]["deref_probes"])
            events.append({"ev": "resolve", "d": d, "probe": probe})
            if len(probe) >= 2 and "->" not in probe and rng.random() < 0.4:
                # the same attribute through one dotted key (`src["m.t.u"]`): every level on the way contributes
                # its scope exactly as in step-by-step access
                events[-1]["dotted"] = True
        elif r < 0.68:
            tag += 1
            events.append({"ev": "assign", "d": d, "probe": rng.choice(docs[d]["probes"]), "value": (base + d) * 1000 + 900 + tag})
            held[d] = 0
        elif r < 0.74:
            tag += 1
            events.append({"ev": "scope_edit", "d": d, "path": "@" * rng.choice([1, 1, 2]) + rng.choice(scopegen.NAMES), "value": str((base + d) * 1000 + 900 + tag)})
            held[d] = 0
        elif r < 0.785:
            # a let binding is *renamed* between two lookups of one object (removed, another name added: the layer has
            # as many members as before): the name must now mean the next binding outwards, or nothing
            tag += 1
            probe = rng.choice(docs[d]["probes"])
            events.append({"ev": "resolve", "d": d, "probe": probe})
            events.append({"ev": "scope_rename", "d": d, "at": "@" * rng.choice([1, 1, 2]), "old": rng.choice(scopegen.NAMES), "new": rng.choice(["z1", "z2"]),
                           "value": str((base + d) * 1000 + 900 + tag), "via": rng.choice(["cli", "mapping"])})
            events.append({"ev": "resolve", "d": d, "probe": probe})
            for p2 in docs[d]["probes"][:2]:
                events.append({"ev": "resolve", "d": d, "probe": p2})
            held[d] = 0
        elif r < 0.80 and len(live) >= 2:
            # a value travels: the expression object found under a probe of one document is assigned into another
            # document, then read there - it must mean what the text of its new home says (or fail explicitly), never
            # what it meant where it came from
            tag += 1
            d2 = rng.choice(sorted(x for x in live if x != d))
            probe = rng.choice(docs[d]["probes"])
            key = "mv%d" % tag
            events.append({"ev": "resolve", "d": d, "probe": probe})  # the source resolves it first: its chain is stored
            events.append({"ev": "move", "d": d, "to": d2, "probe": probe[:1], "key": key})
            events.append({"ev": "resolve", "d": d2, "probe": [key] + list(probe[1:])})
            events.append({"ev": "resolve", "d": d, "probe": probe})
            held[d2] = 0
        elif r < 0.82:
            events.append({"ev": "inherit_copy", "d": d, "name": rng.choice(scopegen.NAMES)})
        elif r < 0.92:
            events.append({"ev": "drop", "d": d})
            live.discard(d)
            held[d] = 0
            if rng.random() < 0.5:
                events.append({"ev": "reuse_probe"})
        else:
            events.append({"ev": "gc"})
            if rng.random() < 0.5:
                events.append({"ev": "reuse_probe"})
    return {"prop": "C10", "engine": "registry", "seed": seed, "tier": tier, "docs": docs, "events": events, "base": base}


def _tag_of(tokens):
    for t in tokens or ():
        if t.isdigit() and len(t) >= 6:
            return int(t) // 1000
    return None


def execute(case: dict):
    from nix_manipulator import parse, resolution
    from nix_manipulator.cli.manipulations import set_value
    from nix_manipulator.exceptions import ResolutionError
    from nix_manipulator.expressions.identifier import Identifier

    from .c15 import package_prefix

    prefix = package_prefix()
    viols: list[Violation] = []
    stats: dict = {"events": 0, "resolves": 0}
    keys: list = []
    docs = case["docs"]
    texts = [d["text"] for d in docs]
    live: dict[int, object] = {}
    copies: dict[int, list] = {}
    holds: dict[int, list] = {}  # document -> [(handle, full probe path)]
    dead_ids: set[int] = set()

    def bump(k, n=1):
        stats[k] = stats.get(k, 0) + n

    def check_resolution(d, what, expr, exp, step, wrappers=None):
        """Resolve *expr* under a step budget and compare with the reference answer *exp*."""
        wr = list(wrappers or [])
        first_let = wr.index("let") if "let" in wr else None
        separated = first_let is not None and any(k in ("assert", "lambda", "call", "paren") for k in wr[first_let + 1:])
        facts = {"doc": d, "what": what.split(" ")[0], "expected": exp.kind if exp else None, "binder": exp.binder if exp else None,
                 "via": exp.via if exp else None, "wrappers": wr, "let_separated": separated, "has_with": "with" in wr,
                 "has_lambda": "lambda" in wr}
        got_kind, got_tokens, got_exc = None, None, None
        try:
            with StepBudget(STEP_BUDGET, prefix) as sb:
                val = expr.value
                text = val.rebuild() if hasattr(val, "rebuild") else str(val)
            got_kind = "value"
            got_tokens = reader.tokens_of_text(text)
        except BudgetExceeded:
            got_kind = "budget"
        except ResolutionError as e:
            got_kind = "resolution_error"
            got_exc = str(e)
        except Exception as e:  # noqa: BLE001
            got_kind = "other_exception"
            got_exc = "%s: %s" % (type(e).__name__, e)
        bump("volatile:steps", sb.steps)
        bump("resolves")
        bump("expected:" + (exp.kind if exp else "none"))
        bump("got:" + got_kind)
        if exp is not None and exp.binder:
            bump("binder:" + exp.binder)
        keys.append(digest([texts[d], what, got_kind, got_tokens]))
        if got_kind == "budget":
            viols.append(Violation("C10.unbounded", "resolution of %s did not finish within %d steps" % (what, STEP_BUDGET), step, facts))
            return
        if got_kind == "other_exception":
            viols.append(Violation("C10.wrong_exception", "resolution of %s raised %s" % (what, got_exc), step, facts))
            return
        if got_kind == "value":
            tag = _tag_of(got_tokens)
            here = ""
            if tag is not None and tag != case["base"] + d and live.get(d) is not None:
                # (a literal that travelled into this document with a moved value belongs to it now)
                try:
                    here = live[d].rebuild()
                except Exception:  # noqa: BLE001
                    here = ""
            if tag is not None and tag != case["base"] + d and any(t.isdigit() and len(t) >= 6 and t in here for t in got_tokens):
                bump("probe:moved_literal_answers_in_new_home")
            elif tag is not None and tag != case["base"] + d:
                viols.append(Violation("C10.foreign_value", "resolution of %s in document %d answered %r, a literal of document %d" % (what, d, got_tokens, tag - case["base"]), step, facts))
                return
        if exp is None:
            return
        if exp.kind == "value":
            if got_kind == "value":
                if tuple(got_tokens) != tuple(exp.tokens):
                    viols.append(Violation("C10.wrong_value", "%s resolves to %r; lexical scoping designates %r (via %s)" % (what, got_tokens, exp.tokens, exp.via), step, facts))
            else:
                # explicit failure on a bound name: tolerated ("follows Nix lexical scoping or fails explicitly"),
                # counted by binder kind so the evidence shows where resolution gives up
                bump("explicit_failure_on_bound:" + str(exp.binder))
                # "fails explicitly" is for names that have no value; a name the scoping rules bind to a value must
                # resolve (the reference answer is a value, the library says ResolutionError)
                viols.append(Violation("C10.explicit_failure_on_bound", "%s is bound (%r via %s) but resolution failed: %s" % (what, exp.tokens, exp.via, got_exc), step, facts))
        elif exp.kind in ("unbound", "cycle"):
            if got_kind == "value":
                viols.append(Violation("C10.%s_resolved" % exp.kind, "%s is %s but resolved to %r" % (what, exp.kind, got_tokens), step, facts))
        elif exp.kind == "formal":
            if got_kind == "value" and (exp.tokens is None or tuple(got_tokens) != tuple(exp.tokens)):
                viols.append(Violation("C10.formal_shadow_ignored", "%s is bound by a lambda formal (default %r) but resolved to %r" % (what, exp.tokens, got_tokens), step, facts))

    was_enabled = gc.isenabled()
    gc.collect()
    # hermetic start: entries left behind by earlier cases of this worker process are not part of this history
    resolution._CONTEXTS.clear()
    gc.disable()
    try:
        for step, ev in enumerate(case["events"]):
            stats["events"] += 1
            kind = ev["ev"]
            bump("event:" + kind)
            if kind == "gc":
                before_ids = set(resolution._CONTEXTS)
                gc.collect()
                gone = before_ids - set(resolution._CONTEXTS)
                dead_ids.update(gone)
                bump("volatile:registry_entries_collected", len(gone))
                continue
            if kind == "reuse_probe":
                # Force address reuse inside the case: right after objects died, allocate fresh context-free
                # identifiers (a document without any scope) until one lands on a dead address, then resolve it.
                # It has no scope chain, so the only acceptable outcome is ResolutionError.
                keep = []
                for _k in range(40):
                    psrc = parse("{ x = n1; y = n2; z = n3; }")
                    keep.append(psrc)
                    for key in ("x", "y", "z"):
                        ident = psrc[key]
                        keep.append(ident)
                        if id(ident) in dead_ids:
                            bump("probe:address_reuse")
                        try:
                            with StepBudget(STEP_BUDGET, prefix):
                                val = ident.value
                            got = reader.tokens_of_text(val.rebuild() if hasattr(val, "rebuild") else str(val))
                            viols.append(Violation("C10.foreign_value", "an identifier of a fresh document without any scope resolved to %r: the value comes from another (discarded) document's context" % (got,), step,
                                                   {"doc": None, "what": "reuse_probe", "expected": "unbound", "reused_address": id(ident) in dead_ids}))
                            break
                        except ResolutionError:
                            pass
                        except BudgetExceeded:
                            viols.append(Violation("C10.unbounded", "resolution of a context-free identifier did not finish", step, {"doc": None, "what": "reuse_probe"}))
                            break
                    if viols:
                        break
                if not viols:
                    # ... and identifiers that were never part of any document (built by hand, nothing ever attached
                    # to them): whatever the library remembers about the address they land on is not theirs
                    for _k in range(60):
                        ident = Identifier(name=("n1", "n2", "n3")[_k % 3])
                        keep.append(ident)
                        if id(ident) in dead_ids:
                            bump("probe:address_reuse")
                        try:
                            with StepBudget(STEP_BUDGET, prefix):
                                val = ident.value
                            got = reader.tokens_of_text(val.rebuild() if hasattr(val, "rebuild") else str(val))
                            viols.append(Violation("C10.foreign_value", "a hand-made identifier that belongs to no document resolved to %r: the value comes from another expression's context" % (got,), step,
                                                   {"doc": None, "what": "reuse_probe_bare", "expected": "unbound", "reused_address": id(ident) in dead_ids}))
                            break
                        except ResolutionError:
                            pass
                        except BudgetExceeded:
                            viols.append(Violation("C10.unbounded", "resolution of a context-free identifier did not finish", step, {"doc": None, "what": "reuse_probe_bare"}))
                            break
                bump("reuse_probe_identifiers", 3 * len(keep) // 4)
                del keep
                if viols:
                    break
                continue
            if kind == "churn":
                for k in range(ev["n"]):
                    t = parse("let\n  v = %d;\n  w = v;\nin\nrec {\n  a = w;\n  b = a;\n  c = { d = b; };\n}\n" % k)
                    for key in ("a", "b"):
                        try:
                            t[key].value
                        except ResolutionError:
                            pass
                    try:
                        t["c"]["d"].value
                    except ResolutionError:
                        pass
                    del t
                bump("churn_documents", ev["n"])
                bump("volatile:registry_size_after_churn", len(resolution._CONTEXTS))
                continue
            d = ev["d"]
            if kind == "create":
                live[d] = parse(texts[d])
                copies.setdefault(d, [])
                holds[d] = []
                continue
            src = live.get(d)
            if src is None:
                bump("skip:not_live")
                continue
            if kind == "drop":
                try:
                    texts[d] = src.rebuild()
                except Exception:  # noqa: BLE001
                    pass
                before_ids = set(resolution._CONTEXTS)
                for c in copies.get(d, []):
                    dead_ids.add(id(c))
                del live[d]
                copies[d] = []
                holds[d] = []
                src = None
                dead_ids.update(before_ids - set(resolution._CONTEXTS))
                dead = sum(1 for r, _ in list(resolution._CONTEXTS.values()) if r() is None)
                bump("probe:dead_registry_entries", dead)
                continue
            try:
                current = src.rebuild()
            except Exception as e:  # noqa: BLE001
                viols.append(Violation("C10.rebuild_failed", "rebuild raised %r" % (e,), step, {"doc": d}))
                break
            if kind == "hold":
                probe = ev["probe"]
                try:
                    handle = src[probe[0]]
                except Exception:  # noqa: BLE001
                    bump("skip:hold_failed")
                    continue
                holds.setdefault(d, []).append((handle, probe))
                bump("holds")
                continue
            if kind == "resolve_held":
                hs = holds.get(d) or []
                if not hs:
                    bump("skip:nothing_held")
                    continue
                handle, probe = hs[ev["k"] % len(hs)]
                exp, info = resolver.resolve_attr(current, probe)
                if exp is None or not info.get("is_reference"):
                    bump("skip:probe_not_reference")
                    continue
                try:
                    cur = handle
                    for seg in probe[1:]:
                        cur = cur[seg]
                except Exception as e:  # noqa: BLE001
                    bump("skip:traverse_failed:" + type(e).__name__)
                    continue
                if not isinstance(cur, Identifier):
                    bump("skip:probe_not_identifier")
                    continue
                bump("probe:resolved_through_held_handle")
                check_resolution(d, ".".join(probe) + " (held) -> " + str(info.get("ref_name")), cur, exp, step, info.get("wrappers"))
                continue
            if kind in ("assign", "scope_edit", "scope_rename"):
                # an edit may replace the objects a handle points into: handles taken before it are dropped
                holds[d] = []
            if kind in ("resolve", "assign"):
                probe = ev["probe"]
                exp, info = resolver.resolve_attr(current, probe)
                if exp is None or not info.get("is_reference"):
                    bump("skip:probe_not_reference")
                    continue
                try:
                    cur = src
                    for seg in ([".".join(probe)] if ev.get("dotted") else probe):
                        if seg == "->":
                            with StepBudget(STEP_BUDGET, prefix):
                                cur = cur.value
                            bump("probe:deref")
                        else:
                            cur = cur[seg]
                except BudgetExceeded:
                    viols.append(Violation("C10.unbounded", "traversal to %s did not finish" % " ".join(probe), step, {"doc": d, "what": "traverse"}))
                    break
                except Exception as e:  # noqa: BLE001
                    if isinstance(e, ResolutionError) or isinstance(e, KeyError):
                        bump("skip:traverse_failed:" + type(e).__name__)
                        continue
                    viols.append(Violation("C10.wrong_exception", "traversal to %s raised %s: %s" % (".".join(probe), type(e).__name__, e), step, {"doc": d, "what": "traverse"}))
                    break
                if not isinstance(cur, Identifier):
                    bump("skip:probe_not_identifier")
                    continue
                if id(cur) in dead_ids:
                    bump("probe:address_reuse")
                what = ".".join(probe) + " -> " + str(info.get("ref_name"))
                if kind == "resolve":
                    check_resolution(d, what, cur, exp, step, info.get("wrappers"))
                else:
                    try:
                        with StepBudget(STEP_BUDGET, prefix):
                            cur.value = ev["value"]
                        bump("assign:ok")
                    except BudgetExceeded:
                        viols.append(Violation("C10.unbounded", "assignment through %s did not finish" % what, step, {"doc": d, "what": what}))
                    except ResolutionError:
                        bump("assign:resolution_error")
                    except Exception as e:  # noqa: BLE001
                        viols.append(Violation("C10.wrong_exception", "assignment through %s raised %s: %s" % (what, type(e).__name__, e), step, {"doc": d, "what": what}))
            elif kind == "scope_edit":
                try:
                    set_value(src, ev["path"], ev["value"])
                    bump("scope_edit:ok")
                except Exception:  # noqa: BLE001 - refusals are C08's business
                    bump("scope_edit:refused")
            elif kind == "move":
                dst = live.get(ev["to"])
                if dst is None:
                    bump("skip:move_target_not_live")
                    continue
                try:
                    val = src[ev["probe"][0]]
                    dst[ev["key"]] = val
                    holds[ev["to"]] = []
                    bump("move:ok")
                except Exception as e:  # noqa: BLE001 - the target is not a plain mapping (call argument ...): nothing moved
                    bump("move:refused:" + type(e).__name__)
            elif kind == "scope_rename":
                from nix_manipulator.cli.manipulations import remove_value

                try:
                    if ev["via"] == "cli" or ev["at"] != "@":
                        remove_value(src, ev["at"] + ev["old"])
                        set_value(src, ev["at"] + ev["new"], ev["value"])
                    else:
                        holder = src.expr
                        for _ in range(8):
                            if getattr(holder, "scope", None):
                                break
                            holder = getattr(holder, "output", None) or holder
                        del holder.scope[ev["old"]]
                        holder.scope[ev["new"]] = int(ev["value"])
                    bump("scope_rename:ok")
                except Exception:  # noqa: BLE001 - the name is not bound in that layer (or there is no such layer)
                    bump("scope_rename:refused")
            elif kind == "inherit_copy":
                name = ev["name"]
                dec = reader.decode(current)
                if dec.error or not dec.shape.editable:
                    continue
                has_inherit = any(m[0] == "i" and m[1] is None and name in m[2] for m in dec.target)
                if not has_inherit:
                    bump("skip:no_inherit")
                    continue
                try:
                    cp = src[name]
                except Exception:  # noqa: BLE001
                    bump("skip:inherit_lookup_failed")
                    continue
                if not isinstance(cp, Identifier):
                    continue
                if id(cp) in dead_ids:
                    bump("probe:address_reuse")
                copies[d].append(cp)
                bump("probe:inherit_copies")
                # reference answer: `inherit name;` in the target refers to the scope outside the target
                r = resolver.Resolver(dec.doc).lookup(name, dec.shape.target, set(), [], 0)
                check_resolution(d, "inherit " + name, cp, r, step, dec.shape.kinds())
                # the handle of such a lookup is a temporary: look it up once more, let it die at once and put a
                # hand-made identifier of the same kind in its place (the allocator hands the slot out again) - that
                # one belongs to no document and must not resolve
                try:
                    t2 = src[name]
                    try:
                        t2.value
                    except ResolutionError:
                        pass
                    was = id(t2)
                    del t2
                    bare = Identifier(name=name)
                    if id(bare) == was:
                        bump("probe:slot_reused_at_once")
                    try:
                        with StepBudget(STEP_BUDGET, prefix):
                            val = bare.value
                        got = reader.tokens_of_text(val.rebuild() if hasattr(val, "rebuild") else str(val))
                        viols.append(Violation("C10.foreign_value", "a hand-made identifier `%s` that belongs to no document resolved to %r right after a temporary handle of the same name died" % (name, got), step,
                                               {"doc": d, "what": "slot_probe", "expected": "unbound", "reused_address": id(bare) == was}))
                    except ResolutionError:
                        pass
                    except BudgetExceeded:
                        viols.append(Violation("C10.unbounded", "resolution of a context-free identifier did not finish", step, {"doc": d, "what": "slot_probe"}))
                    del bare
                except KeyError:
                    pass
            if len(viols) >= 3:
                break
    finally:
        live.clear()
        copies.clear()
        gc.collect()
        if was_enabled:
            gc.enable()
    return viols, stats, keys


# ---------------------------------------------------------------------------
# directly applied functions (the body is reached through the call, DESIGN.md section 5a)
# ---------------------------------------------------------------------------


def generate_applied(seed: int, tier: str) -> dict:
    st = Streams(seed)
    rng = st("applied")
    base = (seed % 800 + 100) * 1000
    k = [0]

    def lit():
        k[0] += 1
        return str(base + k[0])

    names = ["a", "b", "c"]
    outer = []
    if rng.random() < 0.6:
        outer = ["%s = %s;" % (n, lit()) for n in names + ["n"] if rng.random() < 0.5]
    arg_members = ["%s = %s;" % (n, lit() if rng.random() < 0.8 else rng.choice(["n", "a"])) for n in names if rng.random() < 0.6]
    arg_by_name = rng.random() < 0.4
    if arg_by_name or outer:
        outer = outer + (["arg = { %s };" % " ".join(arg_members)] if arg_by_name else [])
    formals = []
    for n in names:
        r = rng.random()
        if r < 0.45:
            formals.append(n)
        elif r < 0.8:
            formals.append("%s ? %s" % (n, lit() if rng.random() < 0.6 else rng.choice([x for x in names if x != n] + ["n"])))
    simple = rng.random() < 0.15
    inner_let = ["%s = %s;" % (n, lit()) for n in names if rng.random() < 0.2]
    body = ["x%d = %s;" % (i + 1, n) for i, n in enumerate(names + ["n"]) if rng.random() < 0.8] or ["x1 = a;"]
    body_text = "{ %s }" % " ".join(body)
    if inner_let:
        body_text = "let %s in %s" % (" ".join(inner_let), body_text)
    if simple:
        head = "a:"
        argument = lit() if not arg_by_name else "n"
        if arg_by_name and not any(o.startswith("n =") for o in outer):
            outer.append("n = %s;" % lit())
            outer = [o for o in outer if not o.startswith("arg =")]
    else:
        head = "{ %s%s }:" % (", ".join(formals), (", ..." if formals else "...") if rng.random() < 0.5 else "")
        argument = "arg" if arg_by_name else "{ %s }" % " ".join(arg_members)
    text = "(%s %s) %s" % (head, body_text, argument)
    if not simple and arg_by_name and rng.random() < 0.5:
        # nested application: the inner call has a let of its own that binds the argument's name again, and sits in
        # the body of an outer application (whose chain it inherits)
        own = "{ %s }" % " ".join("%s = %s;" % (n, lit()) for n in names if rng.random() < 0.7)
        text = "let arg = %s; in %s" % (own, text)
        text = rng.choice(["({ z }: %s) { z = 0; }", "(z: %s) 0", "({ arg }: %s) { arg = { a = %s; }; }" % ("%s", lit())]) % text
    if outer:
        text = "let\n" + "".join("  %s\n" % o for o in outer) + "in\n" + text
    text += "\n"
    probes = [b.split(" ")[0] for b in body]
    return {"prop": "C10", "engine": "registry", "kind": "applied", "seed": seed, "tier": tier, "text": text, "probes": probes, "docs": [], "events": []}


def _applied_body_node(doc: reader.Doc):
    """function_expression of the applied lambda and the set its body denotes (through let / with / parentheses)."""
    stack = [doc.root]
    fn = None
    while stack:
        n = stack.pop(0)
        if n.type == "apply_expression":
            f = n.child_by_field_name("function")
            while f is not None and f.type == "parenthesized_expression":
                f = f.child_by_field_name("expression")
            if f is not None and f.type == "function_expression":
                fn = f
                break
        stack.extend(n.children)
    if fn is None:
        return None, None
    for _level in range(4):
        body = fn.child_by_field_name("body")
        hops = 0
        while body is not None and body.type in ("let_expression", "with_expression", "parenthesized_expression", "assert_expression") and hops < 8:
            hops += 1
            body = body.child_by_field_name("body") or body.child_by_field_name("expression")
        if body is not None and body.type == "apply_expression":
            # the body is itself an application of a lambda: descend
            f = body.child_by_field_name("function")
            while f is not None and f.type == "parenthesized_expression":
                f = f.child_by_field_name("expression")
            if f is not None and f.type == "function_expression":
                fn = f
                continue
        break
    if body is None or body.type not in reader.SET_TYPES:
        return fn, None
    return fn, body


def execute_applied(case: dict):
    from nix_manipulator import parse
    from nix_manipulator.exceptions import ResolutionError
    from nix_manipulator.expressions.identifier import Identifier
    from nix_manipulator.expressions.parenthesis import Parenthesis
    from nix_manipulator.resolution import scopes_for_owner, set_resolution_context

    viols: list[Violation] = []
    stats: dict = {"applied_documents": 1, "events": 0, "resolves": 0}
    keys: list = []
    text = case["text"]
    doc = reader.Doc(text)
    if doc.has_error():
        stats["skip:applied_invalid"] = 1
        return viols, stats, keys
    fn, body = _applied_body_node(doc)
    if body is None:
        stats["skip:applied_no_body"] = 1
        return viols, stats, keys
    members = {}
    for b in resolver._bindings_of(body):
        if b.type == "binding":
            ap = b.child_by_field_name("attrpath")
            segs = [reader.decode_attr(x) for x in ap.named_children if x.type != "comment"]
            if len(segs) == 1:
                members[segs[0]] = b.child_by_field_name("expression")
    src = parse(text)
    from nix_manipulator.expressions.function.call import FunctionCall
    from nix_manipulator.expressions.function.definition import FunctionDefinition

    try:
        lib_body = src.expr
        for _level in range(4):
            if not isinstance(lib_body, FunctionCall):
                break
            call = lib_body
            f = call.name
            while isinstance(f, Parenthesis):
                f = f.value
            if not isinstance(f, FunctionDefinition):
                break
            chain = scopes_for_owner(call)
            lib_body = f.output
            set_resolution_context(lib_body, chain)
    except ResolutionError:
        stats["skip:applied_call_scope_refused"] = 1  # e.g. a formal without default that the argument does not supply
        return viols, stats, keys
    except Exception as e:  # noqa: BLE001
        viols.append(Violation("C10.wrong_exception", "building the call scope raised %s: %s" % (type(e).__name__, e), 0, {"what": "applied", "doc": None}))
        return viols, stats, keys
    rv = resolver.Resolver(doc)
    for step, probe in enumerate(case["probes"]):
        node = members.get(probe)
        if node is None or resolver._name_of_variable(node) is None:
            continue
        exp = rv.resolve_value_node(node)
        try:
            ident = lib_body[probe]
        except Exception:  # noqa: BLE001
            stats["skip:applied_traverse_failed"] = stats.get("skip:applied_traverse_failed", 0) + 1
            continue
        if not isinstance(ident, Identifier):
            continue
        stats["resolves"] += 1
        stats["probe:applied_resolutions"] = stats.get("probe:applied_resolutions", 0) + 1
        stats["applied_expected:" + exp.kind] = stats.get("applied_expected:" + exp.kind, 0) + 1
        facts = {"what": "applied", "doc": None, "expected": exp.kind, "binder": exp.binder, "via": exp.via, "wrappers": ["applied"]}
        try:
            val = ident.value
            got = ("value", tuple(reader.tokens_of_text(val.rebuild() if hasattr(val, "rebuild") else str(val))))
        except ResolutionError as e:
            got = ("resolution_error", str(e))
        except RecursionError:
            got = ("budget", None)
        except Exception as e:  # noqa: BLE001
            got = ("other", "%s: %s" % (type(e).__name__, e))
        keys.append(digest([text, probe, got[0]]))
        what = "%s -> %s" % (probe, resolver._name_of_variable(node))
        if got[0] == "other":
            viols.append(Violation("C10.wrong_exception", "resolution of %s raised %s" % (what, got[1]), step, facts))
        elif got[0] == "budget":
            viols.append(Violation("C10.unbounded", "resolution of %s did not finish" % what, step, facts))
        elif exp.kind == "value":
            if got[0] != "value":
                viols.append(Violation("C10.explicit_failure_on_bound", "%s is bound (%r via %s) but resolution failed: %s" % (what, exp.tokens, exp.via, got[1]), step, facts))
            elif tuple(got[1]) != tuple(exp.tokens):
                viols.append(Violation("C10.wrong_value", "%s resolves to %r; the applied function's scoping designates %r (via %s)" % (what, got[1], exp.tokens, exp.via), step, facts))
        elif exp.kind in ("unbound", "cycle") and got[0] == "value":
            viols.append(Violation("C10.%s_resolved" % exp.kind, "%s is %s but resolved to %r" % (what, exp.kind, got[1]), step, facts))
    return viols, stats, keys


class RegistryProperty:
    engine = "registry"
    rule = ("one evaluation = one seeded lifetime history (create / resolve / assign-through / scope edit / inherit copy / drop / gc.collect) over 2-6 generated scoping programs; "
            "distinct = distinct (document text, probe, outcome) over all resolutions")
    real = ["nix_manipulator resolution registry, weak references, Identifier.value (real)", "real gc, collections only at scheduled events"]
    stubbed = ["gc timing (automatic collection disabled)", "time: a step budget of traced line events stands for 'bounded time'"]

    def __init__(self, quick_runs=8000, thorough_runs=120000):
        self.pid = "C10"
        self.runs = {"quick": quick_runs, "thorough": thorough_runs}

    def generate(self, seed, tier):
        if Streams(seed)("kind").random() < 0.12:
            return generate_applied(seed, tier)
        return generate(seed, tier)

    def execute(self, case):
        if case.get("kind") == "applied":
            return execute_applied(case)
        return execute(case)

    def shrink_candidates(self, case):
        if case.get("kind") == "applied":
            for k in range(len(case["probes"])):
                yield dict(case, probes=case["probes"][:k] + case["probes"][k + 1:])
            return
        ev = case["events"]
        n = len(ev)
        size = max(1, n // 2)
        while size >= 1:
            for start in range(0, n, size):
                new = ev[:start] + ev[start + size:]
                if new and len(new) < n:
                    c = dict(case)
                    c["events"] = new
                    yield c
            size //= 2
        # shrink the text of each document line by line
        for d, doc in enumerate(case["docs"]):
            lines = doc["text"].split("\n")
            for i in range(len(lines)):
                text = "\n".join(lines[:i] + lines[i + 1:])
                if text.strip() and not reader.Doc(text).has_error() and not reader.EMPTY_LET.search(text):
                    c = dict(case)
                    c["docs"] = case["docs"][:d] + [dict(doc, text=text)] + case["docs"][d + 1:]
                    yield c
