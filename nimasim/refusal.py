"""C08, second workload: refusals of the mapping-style API and of `set` / `rm`
on documents whose top level is not (or no longer) an editable set.

One case is a history on ONE live document object.  Operations: item lookup /
assignment / deletion at document level and through nested values, `set` /
`rm` with the CLI helpers, extra rebuilds, and *re-binding the name the
document body refers to* through the scope mapping (`let s = { … }; in s`
becomes `let s = [ 1 2 ]; in s`), which turns an editable document into an
unsupported one in the middle of a history.

Oracle (no model of the values is needed): before every operation the live
object's text is taken and parsed afresh; the same operation runs on that fresh
twin.  "later edits behave as if the failed one had never happened" and "the
in-memory document still rebuilds to exactly the text it produced before" give

* an operation that raises leaves the live object's text unchanged,
* an operation the fresh twin refuses is refused on the live object too (KeyError /
  ValueError for `set` / `rm`); the converse - a refusal only the live object
  produces - is loud and harmless, so it is counted, not reported,
* the history with its refused operations removed, run on a second object, prints
  the same text after every remaining operation.
"""

from __future__ import annotations

import copy

from . import mapping
from .core import Streams, Violation, digest

ALIAS_DOCS = [
    "let\n  s = {\n    a = 1;\n    b = {\n      c = 2;\n    };\n  };\nin\ns\n",
    "let\n  s = {\n    a = 1;\n    m.x = 2;\n    m.y = 3;\n  };\n  k = 4;\nin\nf s\n",
    "{ }:\nlet\n  s = {\n    a = 1;\n    l = [\n      1\n    ];\n  };\nin\ns\n",
    "let\n  s = { a = 1; };\nin\nlib.mk s\n",
]
LETINHERIT_DOCS = [
    "let\n  lib = {\n    a = {\n      k = 1;\n    };\n  };\n  inherit (lib) a;\n  b = a;\n  c = 3;\nin\n{\n  x = b;\n}\n",
    "let\n  lib = { a = 1; d = 2; };\n  inherit (lib) a d;\n  b = d;\nin\n{\n  x = a;\n  s = {\n    t = b;\n  };\n}\n",
    "{ lib }:\nlet\n  inherit (lib) a;\n  v = a;\n  k = 4;\nin\n{\n  x = v;\n  a = k;\n}\n",
    "let\n  a = 1;\nin\nlet\n  inherit a;\n  b = a;\nin\nrec {\n  x = b;\n  m.y = a;\n}\n",
]
SCOPE_NAMES = ["a", "b", "c", "d", "v", "k", "n", "lib"]
SCOPED_PATHS = ["@a.k", "@a", "@b", "@a.k.z", "@d.q", "@m", "@n", "@lib.a.k", "@lib.zz", "@@a", "@v.q", "@k", "x", "s.t", "x.q", "@b.q"]
UNSUPPORTED_DOCS = [
    "[\n  1\n  2\n]\n", "\"str\"\n", "x: x\n", "{ a }: a\n", "", "1\n", "let\n  a = 1;\nin\na\n", "{ a }: [ a ]\n", "f x\n",
    "# only a comment\n", "{ a = 1; } // { b = 2; }\n", "if c then { a = 1; } else { a = 2; }\n", "{ a = 1; }.a\n", "null\n",
]
PLAIN_DOCS = [
    # attrpath families a mapping-style deletion can empty (the emptied root stays and prints as `n = { };`)
    "{\n  a = 1;\n  n.x = 1;\n  m.x = 2;\n  m.y = 3;\n}\n",
    "{\n  n.x.t = 1;\n  b = {\n    c = 2;\n  };\n}\n",
    "let\n  n.x = 1;\n  k = 2;\nin\n{\n  a = k;\n  m.x = 1;\n}\n",
    "{\n  a = 1;\n  l = [\n    1\n    2\n  ];\n  s = {\n    t = 3;\n  };\n  f = x: x;\n  m.x = 1;\n  m.y = 2;\n}\n",
    "{ lib }:\n{\n  a = \"v\";\n  b = {\n    c = {\n      d = 1;\n    };\n  };\n}\n",
    "let\n  v = 1;\nin\n{\n  a = v;\n  s = { };\n}\n",
    "{ a = 1; b = { c = 2; }; }\n",
]
KEYS = ["a", "b", "c", "l", "s", "t", "m", "x", "zz", "k", "v", "n", "n", "x", "m"]
PATHS = ["a", "b.c", "s.t", "m.x", "m", "zz", "zz.y", "a.q", "l.q", "@v", "@s", "@@v", "@zz", "", "a..b", ".a", "s.t.u", "b.c.d.e", "m.x.y",
         "n.zz", "m.zz", "n.x.zz", "@n.zz", "n.x", "@n.x", "n"]
VALUES = ["7", "{ q = 1; }", "[ 1 2 ]", "\"w\"", "7 7", "", "{", "# c"]


def generate(seed: int, tier: str) -> dict:
    st = Streams(seed)
    rng = st("refusal")
    r = rng.random()
    if r < 0.3:
        doc, family = rng.choice(ALIAS_DOCS), "alias"
    elif r < 0.5:
        doc, family = rng.choice(LETINHERIT_DOCS), "letinherit"
    elif r < 0.7:
        doc, family = rng.choice(UNSUPPORTED_DOCS), "unsupported"
    else:
        doc, family = rng.choice(PLAIN_DOCS), "plain"
    tag = (seed % 9000 + 1000) * 100
    ops: list[dict] = []
    for _ in range(rng.randint(2, 7 if tier == "quick" else 10)):
        tag += 1
        r = rng.random()
        if family == "letinherit":
            # the let layer is reached both through scoped CLI paths and directly through the scope mapping
            if r < 0.4:
                ops.append({"op": "set" if rng.random() < 0.6 else "rm", "path": rng.choice(SCOPED_PATHS), "value": str(tag)})
            elif r < 0.6:
                ops.append({"op": "scope_get", "name": rng.choice(SCOPE_NAMES)})
            elif r < 0.8:
                ops.append({"op": "scope_set", "name": rng.choice(SCOPE_NAMES), "value": tag})
            elif r < 0.88:
                ops.append({"op": "scope_del", "name": rng.choice(SCOPE_NAMES)})
            elif r < 0.95:
                ops.append({"op": "get", "keys": [rng.choice(["x", "s", "a", "m"])]})
            else:
                ops.append({"op": "rebuild"})
        elif family == "alias" and r < 0.25:
            val = rng.choice([{"expr": "[ %d ]" % tag}, {"expr": "{ a = %d; z = 1; }" % tag}, {"q": tag}, tag, {"expr": "x: x"}, [tag]])
            ops.append({"op": "rebind", "name": "s", "value": val})
        elif r < 0.45:
            ops.append({"op": "get", "keys": [rng.choice(KEYS) for _ in range(rng.choice([1, 1, 2]))]})
        elif r < 0.62:
            ops.append({"op": "setitem", "keys": [rng.choice(KEYS) for _ in range(rng.choice([1, 1, 2, 3]))], "value": mapping.py_value(rng, tag)})
        elif r < 0.74:
            ops.append({"op": "delitem", "keys": [rng.choice(KEYS) for _ in range(rng.choice([1, 1, 2, 2, 3]))]})
        elif r < 0.86:
            ops.append({"op": "set", "path": rng.choice(PATHS), "value": rng.choice(VALUES) if rng.random() < 0.5 else str(tag)})
        elif r < 0.95:
            ops.append({"op": "rm", "path": rng.choice(PATHS)})
        else:
            ops.append({"op": "rebuild"})
    if "n.x" in doc and rng.random() < 0.5:
        # scripted: a mapping-style deletion empties an attrpath family (its root stays, printed as `n = { };`), then
        # `rm` / `set` below that root are refused (missing leaf, path through the emptied set) - and later edits go on
        on_scope = doc.startswith("let")
        first = {"op": "scope_del2", "keys": ["n", "x"]} if on_scope else {"op": "delitem", "keys": ["n", "x"] if "n.x.t" not in doc else ["n", "x", "t"]}
        pre = "@" if on_scope else ""
        tail = [{"op": "rm", "path": pre + rng.choice(["n.zz", "n.x.zz", "n.zz.y"])}]
        if rng.random() < 0.6:
            tail.append({"op": "set", "path": pre + "n.c", "value": str(tag + 1)})
        pos = rng.randint(0, min(2, len(ops)))
        ops = ops[:pos] + [first] + tail + ops[pos:]
    return {"prop": "C08", "engine": "session", "kind": "refusal", "seed": seed, "tier": tier, "family": family, "doc": doc, "ops": ops}


def _scope_holder(src):
    """The expression whose `.scope` holds the let layer (walks lambda heads)."""
    expr = src.expr
    for _ in range(8):
        if getattr(expr, "scope", None):
            return expr
        nxt = getattr(expr, "output", None)
        if nxt is None:
            break
        expr = nxt
    return src.expr


def _apply(src, op: dict):
    """-> ("ok", None) | ("exc", (class name, message))."""
    from nix_manipulator.cli.manipulations import remove_value, set_value

    try:
        kind = op["op"]
        if kind == "rebuild":
            src.rebuild()
        elif kind == "rebind":
            _scope_holder(src).scope[op["name"]] = mapping.to_python(op["value"])
        elif kind == "scope_get":
            # what the name of the let layer stands for (resolved through the layer's own chain)
            got = _scope_holder(src).scope[op["name"]]
            got = getattr(got, "value", got)
            return "ok", ("seen", got.rebuild() if hasattr(got, "rebuild") else repr(got))
        elif kind == "scope_set":
            _scope_holder(src).scope[op["name"]] = mapping.to_python(op["value"])
        elif kind == "scope_del":
            del _scope_holder(src).scope[op["name"]]
        elif kind == "scope_del2":
            cur = _scope_holder(src).scope
            for k in op["keys"][:-1]:
                cur = cur[k]
            del cur[op["keys"][-1]]
        elif kind == "set":
            set_value(src, op["path"], op["value"])
        elif kind == "rm":
            remove_value(src, op["path"])
        else:
            cur = src
            for k in op["keys"][:-1]:
                cur = cur[k]
            if kind == "get":
                got = cur[op["keys"][-1]]
                return "ok", ("seen", got.rebuild() if hasattr(got, "rebuild") else repr(got))
            elif kind == "setitem":
                cur[op["keys"][-1]] = mapping.to_python(op["value"])
            else:
                del cur[op["keys"][-1]]
        return "ok", None
    except Exception as e:  # noqa: BLE001
        return "exc", (type(e).__name__, str(e)[:160])


def execute(case: dict):
    from nix_manipulator import parse

    viols: list[Violation] = []
    stats: dict = {"ops": 0, "refusal_cases": 1, "family:" + case["family"]: 1}
    keys: list = []

    def bump(k, n=1):
        stats[k] = stats.get(k, 0) + n

    try:
        live = parse(case["doc"])
    except Exception as e:  # noqa: BLE001
        viols.append(Violation("C08.parse_crashed", "parse raised %r" % e, 0, {"family": case["family"]}))
        return viols, stats, keys
    if getattr(live, "contains_error", False):
        bump("skip:damaged_document")
        return viols, stats, keys
    failed_before = False
    accepted: list = []  # the operations the live object accepted so far: the history "without the refused ones"

    def ghost_after(ops):
        """A second object driven through *ops* only (each followed by a rebuild, like the live one)."""
        g = parse(case["doc"])
        for o in ops:
            out, _ = _apply(g, copy.deepcopy(o))
            if out != "ok":
                return None
            g.rebuild()
        return g

    for i, op in enumerate(case["ops"]):
        bump("ops")
        try:
            before = live.rebuild()
        except Exception as e:  # noqa: BLE001
            # a re-bound value the renderer cannot print is outside this workload
            bump("skip:rebuild_raised:" + type(e).__name__)
            break
        facts = {"family": case["family"], "op": op["op"], "refusal": True, "failed_before": failed_before}
        try:
            twin = parse(before)
        except Exception as e:  # noqa: BLE001
            bump("skip:twin_parse_raised:" + type(e).__name__)
            break
        if getattr(twin, "contains_error", False):
            bump("skip:twin_invalid")
            break
        # the live object must be left alone by a deep copy of its operand
        out_live, err_live = _apply(live, copy.deepcopy(op))
        out_twin, err_twin = _apply(twin, copy.deepcopy(op))
        try:
            after = live.rebuild()
        except Exception as e:  # noqa: BLE001
            if out_live == "exc":
                viols.append(Violation("C08.mutated", "after a refused %s the document no longer rebuilds (%s)" % (op["op"], type(e).__name__), i, facts))
            bump("skip:after_rebuild_raised")
            break
        keys.append(digest([before, op, out_live, err_live and err_live[0]]))
        bump("outcome:" + out_live)
        if out_live == "exc":
            bump("exc:" + err_live[0])
            if after != before:
                viols.append(Violation("C08.mutated", "a refused %s (%s) changed the document: %r -> %r" % (op["op"], err_live[0], before[-120:], after[-120:]), i, facts))
                break
            if op["op"] in ("set", "rm") and err_live[0] not in ("KeyError", "ValueError"):
                viols.append(Violation("C08.wrong_exception", "%s %r refused with %s: %s" % (op["op"], op.get("path"), err_live[0], err_live[1]), i, facts))
        if out_live == "ok" and out_twin == "exc" and case["family"] not in ("alias", "unsupported"):
            # an edit the live object can carry out and a fresh parse of its text cannot (seen: a family emptied by a
            # mapping deletion prints `n.x = { };`, which a fresh parse reads as an explicit set inside an attrpath
            # family and refuses to extend, while the live object still knows it as family and prints `n.x.zz = 6;`):
            # both answers are loud or right, C08 is not concerned - counted
            bump("probe:live_accepts_what_fresh_refuses")
        elif out_live == "ok" and out_twin == "exc" and op["op"] not in ("scope_get", "scope_set", "scope_del", "scope_del2"):
            # the document is not (or no longer) an editable set: the fresh twin shows that this operation cannot be
            # applied to this text, so it must be refused on the live object too
            viols.append(Violation("C08.accepted_on_live_object", "%s: the live object accepts what a fresh parse of the same text refuses with %r" % (op["op"], err_twin), i, facts))
            break
        if out_live == "exc" and out_twin == "ok":
            # a refusal the text does not explain (state kept by the live object).  Loud and without effect, so C08
            # itself holds; counted, not reported (seen: `src["m"] = 5` on an attrpath root `m.x = …;` keeps the
            # binding's attrpath marker, after which `set m 6` / `rm m` are refused on that object)
            bump("probe:live_refuses_what_fresh_accepts")
        elif out_live == "exc" and err_live[0] != err_twin[0]:
            bump("probe:refusal_class_differs_from_fresh")
        if failed_before and not viols:
            # "later edits behave as if the failed one had never happened": a second object that went through the
            # accepted operations only answers this operation in the same way - accepted or refused, the same text,
            # the same value seen by a lookup
            ghost = ghost_after(accepted)
            if ghost is None:
                bump("skip:ghost_history_not_reproducible")
            else:
                out_g, err_g = _apply(ghost, copy.deepcopy(op))
                try:
                    got = ghost.rebuild()
                except Exception as e:  # noqa: BLE001
                    got = "rebuild raised %s" % type(e).__name__
                bump("probe:compared_without_refusals")
                if out_g != out_live:
                    viols.append(Violation("C08.later_edit_differs", "%s %r is %s (%r) after refused operations and %s (%r) in the same history without them" % (
                        op["op"], op.get("path") or op.get("name") or op.get("keys"), out_live, err_live, out_g, err_g), i, facts))
                    break
                if got != after:
                    viols.append(Violation("C08.later_edit_differs", "%s gives %r after refused operations and %r in the same history without them" % (op["op"], after[-160:], got[-160:]), i, facts))
                    break
                if out_live == "ok" and err_live != err_g:
                    viols.append(Violation("C08.later_edit_differs", "%s sees %r after refused operations and %r in the same history without them" % (op["op"], err_live, err_g), i, facts))
                    break
        if out_live == "exc":
            failed_before = True
        else:
            accepted.append(op)
    return viols, stats, keys


def shrink_candidates(case: dict):
    ops = case["ops"]
    for k in range(len(ops)):
        yield dict(case, ops=ops[:k] + ops[k + 1:])
    for k in range(len(ops) - 1, 0, -1):
        yield dict(case, ops=ops[:k])
