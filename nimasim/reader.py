"""Independent reader: walks the tree-sitter CST directly.

Nothing in this module imports nix_manipulator.  tree-sitter + tree-sitter-nix
are the trusted base; everything the oracles know about a text (token sequence,
comments, wrapper chain, let layers, attribute tree with byte extents, error
scan) comes from here.

All offsets are *byte* offsets into the UTF-8 encoding of the text.
"""

from __future__ import annotations

import tree_sitter_nix as _tsn
from tree_sitter import Language, Parser

_lang_obj = _tsn.language()
_LANG = _lang_obj if isinstance(_lang_obj, Language) else Language(_lang_obj)
_PARSER = Parser(_LANG)

import re as _re

# a binding-less `let in` (which the library may elide): never produced by generators, rejected while shrinking
EMPTY_LET = _re.compile(r"\blet\b(?:\s|#[^\n]*\n|/\*.*?\*/)*\bin\b", _re.S)
SET_TYPES = ("attrset_expression", "rec_attrset_expression")
KEYWORDS = {"true", "false", "null"}


class Doc:
    """Parsed text with lazily computed views."""

    def __init__(self, text: str):
        self.text = text
        self.data = text.encode("utf-8")
        self.root = _PARSER.parse(self.data).root_node

    # -- errors ---------------------------------------------------------
    def has_error(self) -> bool:
        return scan_error(self.root)

    # -- tokens ---------------------------------------------------------
    def tokens(self, node=None):
        out: list[tuple[str, int, int]] = []
        _tokens(node or self.root, out)
        return out

    def token_texts(self, node=None):
        return [t[0] for t in self.tokens(node)]

    def comments(self):
        out: list = []
        _comments(self.root, out)
        return out


def scan_error(node) -> bool:
    """Own ERROR / MISSING scan (does not rely on node.has_error alone)."""
    stack = [node]
    while stack:
        n = stack.pop()
        if n.type == "ERROR" or n.is_missing:
            return True
        if n.has_error or n.child_count:
            stack.extend(n.children)
    return False


def _tokens(node, out) -> None:
    stack = [node]
    while stack:
        n = stack.pop()
        if n.type == "comment":
            continue
        if n.child_count == 0:
            if n.is_missing:
                continue
            if n.end_byte > n.start_byte:
                out.append((n.text.decode("utf-8", "replace"), n.start_byte, n.end_byte))
            continue
        stack.extend(reversed(n.children))


def _comments(node, out) -> None:
    stack = [node]
    while stack:
        n = stack.pop()
        if n.type == "comment":
            out.append((n.text.decode("utf-8", "replace"), n.start_byte, n.end_byte))
            continue
        if n.child_count:
            stack.extend(reversed(n.children))


def tokens_of_text(text: str) -> tuple[str, ...]:
    return tuple(Doc(text).token_texts())


# ---------------------------------------------------------------------------
# attribute-name decoding (own Nix string decoder)
# ---------------------------------------------------------------------------

_ESC = {"n": "\n", "r": "\r", "t": "\t"}


def decode_string_node(node) -> str | None:
    """Decode a string_expression to its value; None if it interpolates."""
    parts: list[str] = []
    for c in node.children:
        if c.type == "string_fragment":
            parts.append(c.text.decode("utf-8", "replace"))
        elif c.type == "escape_sequence":
            t = c.text.decode("utf-8", "replace")
            ch = t[1:] if t.startswith("\\") else t
            parts.append(_ESC.get(ch, ch))
        elif c.type == "interpolation":
            return None
        # dollar_escape contributes nothing: the "$" follows as a fragment
    return "".join(parts)


def decode_attr(node) -> str:
    """Decoded attribute-name segment; dynamic ones keep a marked raw spelling."""
    if node.type == "identifier":
        return node.text.decode()
    if node.type == "string_expression":
        v = decode_string_node(node)
        if v is not None:
            return v
    return "\x00dyn:" + node.text.decode("utf-8", "replace")


# ---------------------------------------------------------------------------
# wrapper chain and target set
# ---------------------------------------------------------------------------


class Shape:
    """Wrapper chain from the root down to the editable target set."""

    def __init__(self):
        self.wrappers: list[tuple[str, object]] = []  # (kind, node) outermost first
        self.target = None  # attrset node
        self.reason: str | None = None  # why it is not editable

    @property
    def editable(self) -> bool:
        return self.target is not None

    def kinds(self) -> list[str]:
        return [k for k, _ in self.wrappers]

    def layers(self):
        """let nodes directly around the target (innermost first)."""
        out = []
        for kind, node in reversed(self.wrappers):
            if kind != "let":
                break
            out.append(node)
        return out

    def outer_kinds(self) -> list[str]:
        """Wrapper kinds with the directly enclosing let chain removed."""
        ks = self.kinds()
        while ks and ks[-1] == "let":
            ks.pop()
        return ks


def _named_noncomment(node):
    return [c for c in node.named_children if c.type != "comment"]


def _callee_ok(node) -> bool:
    while True:
        t = node.type
        if t == "parenthesized_expression":
            inner = node.child_by_field_name("expression")
            if inner is None:
                return False
            node = inner
            continue
        if t == "apply_expression":
            node = node.child_by_field_name("function")
            if node is None:
                return False
            continue
        return t in ("variable_expression", "select_expression", "function_expression")


def find_shape(root) -> Shape:
    sh = Shape()
    tops = _named_noncomment(root)
    if len(tops) != 1:
        sh.reason = "top-level count %d" % len(tops)
        return sh
    node = tops[0]
    while True:
        t = node.type
        if t in SET_TYPES:
            sh.target = node
            return sh
        if t == "function_expression":
            nxt, kind = node.child_by_field_name("body"), "lambda"
        elif t == "let_expression":
            nxt, kind = node.child_by_field_name("body"), "let"
        elif t == "with_expression":
            nxt, kind = node.child_by_field_name("body"), "with"
        elif t == "assert_expression":
            nxt, kind = node.child_by_field_name("body"), "assert"
        elif t == "parenthesized_expression":
            nxt, kind = node.child_by_field_name("expression"), "paren"
        elif t == "apply_expression":
            fn = node.child_by_field_name("function")
            if fn is None or not _callee_ok(fn) or fn.text == b"import":
                sh.reason = "call with unsupported callee"
                return sh
            nxt, kind = node.child_by_field_name("argument"), "call"
        else:
            sh.reason = "unsupported node " + t
            return sh
        if nxt is None:
            sh.reason = "wrapper without body"
            return sh
        sh.wrappers.append((kind, node))
        node = nxt


# ---------------------------------------------------------------------------
# members of a set / let
# ---------------------------------------------------------------------------


def _binding_container(node):
    """Return the list of member nodes of an attrset or let node."""
    out = []
    for c in node.named_children:
        if c.type == "binding_set":
            out.extend(x for x in c.named_children if x.type != "comment")
    return out


def value_of(node, with_ext: bool):
    """Normalised value: ('leaf', tokens) or ('set', rec, members)."""
    if node.type in SET_TYPES:
        return ("set", node.type == "rec_attrset_expression", members_of(node, with_ext))
    out: list = []
    _tokens(node, out)
    return ("leaf", tuple(t[0] for t in out))


def members_of(node, with_ext: bool = False):
    """Ordered members of an attrset / let node.

    ('b', segs, value[, ext]) for bindings, ('i', source_tokens|None, names[, ext])
    for inherits.  ``ext`` = dict(binding=(s,e), name=(s,e), value=(s,e)).
    """
    members = []
    for m in _binding_container(node):
        if m.type == "binding":
            ap = m.child_by_field_name("attrpath")
            ex = m.child_by_field_name("expression")
            if ap is None or ex is None:
                continue
            segs = tuple(decode_attr(s) for s in ap.named_children if s.type != "comment")
            val = value_of(ex, with_ext)
            if with_ext:
                members.append(
                    (
                        "b",
                        segs,
                        val,
                        {
                            "binding": (m.start_byte, m.end_byte),
                            "name": (ap.start_byte, ap.end_byte),
                            "value": (ex.start_byte, ex.end_byte),
                        },
                    )
                )
            else:
                members.append(("b", segs, val))
        elif m.type in ("inherit", "inherit_from"):
            src = None
            names: list[str] = []
            for c in m.named_children:
                if c.type == "inherited_attrs":
                    names = [decode_attr(x) for x in c.named_children if x.type != "comment"]
                elif c.type != "comment":
                    toks: list = []
                    _tokens(c, toks)
                    src = tuple(t[0] for t in toks)
            if with_ext:
                members.append(("i", src, tuple(names), {"binding": (m.start_byte, m.end_byte)}))
            else:
                members.append(("i", src, tuple(names)))
    return tuple(members)


def strip_ext(members):
    """Drop extents from a with_ext member tuple (recursively)."""
    out = []
    for m in members:
        if m[0] == "b":
            val = m[2]
            if val[0] == "set":
                val = ("set", val[1], strip_ext(val[2]))
            out.append(("b", m[1], val))
        else:
            out.append(("i", m[1], m[2]))
    return tuple(out)


def is_identifier_leaf(val) -> bool:
    """A value that is a bare name (a reference), not a keyword literal."""
    if val[0] != "leaf" or len(val[1]) != 1:
        return False
    t = val[1][0]
    if t in KEYWORDS:
        return False
    return (t[0].isalpha() or t[0] == "_") and all(ch.isalnum() or ch in "_'-" for ch in t)


def flatten(members, prefix=()):
    """Attribute tree as {path: ('leaf', tokens) | ('set',)}; duplicates listed."""
    tree: dict = {}
    dups: list = []

    def put(path, val):
        if path in tree:
            if tree[path][0] == "set" and val[0] == "set":
                return
            dups.append(path)
        tree[path] = val

    def walk(ms, pre):
        for m in ms:
            if m[0] == "b":
                path = pre
                for s in m[1][:-1]:
                    path = path + (s,)
                    put(path, ("set",))
                path = path + (m[1][-1],)
                if m[2][0] == "set":
                    put(path, ("set",))
                    walk(m[2][2], path)
                else:
                    put(path, m[2])
            else:
                for n in m[2]:
                    put(pre + (n,), ("inherit", m[1]))

    walk(members, prefix)
    return tree, dups


# ---------------------------------------------------------------------------
# whole-document decode used by the models
# ---------------------------------------------------------------------------


class Decoded:
    __slots__ = ("doc", "shape", "error", "layers", "target", "rec")

    def __init__(self, text: str, with_ext: bool = False):
        self.doc = Doc(text)
        self.error = self.doc.has_error()
        self.shape = find_shape(self.doc.root) if not self.error else Shape()
        self.layers = ()
        self.target = None
        self.rec = False
        if self.shape.editable:
            self.layers = tuple(members_of(n, with_ext) for n in self.shape.layers())
            self.target = members_of(self.shape.target, with_ext)
            self.rec = self.shape.target.type == "rec_attrset_expression"


def decode(text: str, with_ext: bool = False) -> Decoded:
    return Decoded(text, with_ext)
