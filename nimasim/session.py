"""Edit-session engine: one document object driven through a history of
operations, restarts (drop the object, re-parse the last emitted text) and
failing operations.  Single-threaded; the schedule is the order of operations,
restarts and faults.  Records a trace that the property oracles read.
"""

from __future__ import annotations

from . import reader
from .core import Violation
from .model import DocModel


class Step:
    __slots__ = (
        "i", "op", "fresh", "before", "before_live", "outcome", "exc_class", "exc_mro", "exc_msg",
        "out", "after_live", "pred", "expected", "dec_before", "dec_out", "model_before",
    )

    def to_json(self):
        return {
            "i": self.i, "op": self.op, "fresh": self.fresh, "before": self.before,
            "outcome": self.outcome, "exc": self.exc_class, "out": self.out,
            "pred": list(self.pred[:2]) if self.pred else None,
        }


class NotAReference(Exception):
    """Harness-level refusal: `assign` is only defined for identifier values."""


def apply_op(src, op: dict):
    """Run one set/rm on the live object through the CLI helpers."""
    from nix_manipulator.cli.manipulations import remove_value, set_value

    if op["op"] == "set":
        return set_value(src, op["path"], op["value"])
    if op["op"] == "rm":
        return remove_value(src, op["path"])
    if op["op"] == "assign":
        # assignment through the identifier reached by mapping traversal
        from nix_manipulator import parse

        from nix_manipulator.expressions.identifier import Identifier

        cur = src
        for seg in op["path"].split("."):
            cur = cur[seg]
        if not isinstance(cur, Identifier):
            raise NotAReference(op["path"])  # `.value =` means something else on other node types
        cur.value = parse(op["value"]).expressions[0]
        return src.rebuild()
    raise ValueError("unknown op %r" % (op,))


def run_history(doc: str, ops: list[dict], *, predict: bool = True) -> list[Step]:
    """Execute a history; returns one Step per set/rm operation."""
    from nix_manipulator import parse

    src = parse(doc)
    emitted = doc
    fresh = True
    steps: list[Step] = []
    for i, op in enumerate(ops):
        if op["op"] == "restart":
            src = parse(emitted)
            fresh = True
            continue
        if op["op"] == "scope_del":
            # harness step, not judged itself: a binding of the outermost let layer is deleted through the scope
            # mapping (`del source.expr.scope[name]`); what the object prints afterwards is the new baseline
            try:
                del src.expr.scope[op["name"]]
                emitted = src.rebuild()
                fresh = False
            except Exception:  # noqa: BLE001 - not applicable to this document state
                pass
            continue
        st = Step()
        st.i = i
        st.op = op
        st.fresh = fresh
        st.pred = st.expected = st.dec_before = st.dec_out = st.model_before = None
        st.exc_class = st.exc_msg = st.out = st.after_live = None
        st.exc_mro = ()
        try:
            st.before_live = src.rebuild()
        except Exception as exc:  # noqa: BLE001 - the document object can no longer be rendered
            st.before_live = None
            st.before = emitted
            st.outcome = "rebuild_crash"
            st.exc_class = type(exc).__name__
            st.exc_msg = str(exc)[:200]
            steps.append(st)
            break
        st.before = emitted if fresh else st.before_live
        st.pred = st.expected = st.dec_before = st.dec_out = st.model_before = None
        st.exc_class = st.exc_msg = st.out = None
        st.exc_mro = ()
        if predict:
            st.dec_before = reader.decode(st.before, with_ext=True)
            dm = DocModel(st.dec_before)
            st.model_before = dm.snapshot()
            st.pred = dm.apply(op) if op["op"] in ("set", "rm") else ("unspecified", "assign")
            st.expected = dm.snapshot() if st.pred[0] == "ok" else None
        try:
            out = apply_op(src, op)
            st.outcome = "ok"
            st.out = out
        except Exception as exc:  # noqa: BLE001 - every class is data for the oracles
            st.outcome = "exc"
            st.exc_class = type(exc).__name__
            st.exc_mro = tuple(c.__name__ for c in type(exc).__mro__)
            st.exc_msg = str(exc)[:200]
        try:
            st.after_live = src.rebuild()
        except Exception as exc:  # noqa: BLE001
            st.after_live = None
            if st.outcome == "ok":
                st.exc_msg = "rebuild after success raised %r" % (exc,)
        if st.outcome == "ok":
            if not isinstance(st.out, str):
                st.outcome = "exc"
                st.exc_class = "NonTextResult"
                st.exc_msg = repr(st.out)[:100]
            else:
                emitted = st.out
                if predict:
                    st.dec_out = reader.decode(st.out, with_ext=True)
        fresh = False
        steps.append(st)
    return steps


def facts_of(st: Step) -> dict:
    """Region facts of a step, used to attribute violations to known findings."""
    from .model import PathError, PathUnspecified, parse_npath

    vc = None
    if st.op.get("value"):
        cs = [c[0] for c in reader.Doc(st.op["value"]).comments()]
        vc = "line" if any(c.startswith("#") for c in cs) else ("block" if cs else None)
    f = {
        "value_comment": vc,
        "op": st.op["op"],
        "mode": "fresh" if st.fresh else "live",
        "pred": st.pred[0] if st.pred else None,
        "pred_why": (st.pred[-1] if st.pred and st.pred[0] != "ok" else (st.pred[1] if st.pred else None)),
        "exc": st.exc_class,
    }
    try:
        depth, segs = parse_npath(st.op.get("path", ""))
        f["depth"] = depth
        f["nsegs"] = len(segs)
    except (PathError, PathUnspecified):
        f["depth"] = None
        f["nsegs"] = None
    if st.dec_before is not None and st.dec_before.shape.editable:
        sh = st.dec_before.shape
        f["wrappers"] = sh.kinds()
        f["outer"] = sh.outer_kinds()
        f["nlayers"] = len(st.dec_before.layers)
        # blank line between the last member (or its end-of-line comment) and the closing brace: non-RFC input
        tgt = sh.target
        data = st.dec_before.doc.data
        close = tgt.end_byte - 1
        k = close
        while k > tgt.start_byte and data[k - 1:k] in (b" ", b"\t", b"\n"):
            k -= 1
        f["blank_before_close"] = data[k:close].count(b"\n") >= 2 or _any_blank_before_close(st.dec_before.doc)
        if False and f.get("depth") and 0 < f["depth"] <= len(sh.layers()):
            # scoped operation: the container is a let layer, its closing token is `in`
            lay = sh.layers()[f["depth"] - 1]
            inn_l = [c for c in lay.children if c.type == "in"]
            if inn_l:
                e2 = inn_l[-1].start_byte
                k2 = e2
                while k2 > lay.start_byte and data[k2 - 1:k2] in (b" ", b"\t", b"\n"):
                    k2 -= 1
                f["blank_before_close"] = data[k2:e2].count(b"\n") >= 2
        lets = sh.layers()
        f["blank_before_body"] = False
        if lets:
            inn = [c for c in lets[0].children if c.type == "in"]
            if inn:
                gap = data[inn[-1].end_byte:tgt.start_byte]
                f["blank_before_body"] = gap.strip() == b"" and gap.count(b"\n") >= 2
    else:
        f["wrappers"] = None
        f["outer"] = None
        f["nlayers"] = 0
    return f


def _any_blank_before_close(doc) -> bool:
    """Some set or let of the text has a blank line in front of its closing `}` / `in` (non-RFC layout)."""
    data = doc.data
    stack = [doc.root]
    while stack:
        n = stack.pop()
        if n.type in reader.SET_TYPES or n.type == "let_expression":
            want = "in" if n.type == "let_expression" else "}"
            for c in n.children:
                if c.type == want:
                    e = c.start_byte
                    k = e
                    while k > n.start_byte and data[k - 1:k] in (b" ", b"\t", b"\n"):
                        k -= 1
                    if data[k:e].count(b"\n") >= 2:
                        return True
        stack.extend(n.children)
    return False


def snapshot_of(dec: reader.Decoded):
    return (tuple(reader.strip_ext(l) for l in dec.layers), reader.strip_ext(dec.target))


# ---------------------------------------------------------------------------
# C05: a successful edit yields valid Nix with exactly the requested change
# ---------------------------------------------------------------------------


def crash_violations(prefix: str, steps: list[Step]) -> list[Violation]:
    out = []
    for st in steps:
        if st.outcome == "rebuild_crash":
            out.append(Violation(prefix + ".rebuild_crash", "after the preceding operations the document object cannot be rebuilt any more: %s: %s" % (st.exc_class, st.exc_msg), st.i,
                                 {"op": st.op["op"], "mode": "live", "exc": st.exc_class}))
    return out


def oracle_c05(steps: list[Step]) -> list[Violation]:
    out: list[Violation] = crash_violations("C05", steps)
    steps = [st for st in steps if st.outcome != "rebuild_crash"]
    for st in steps:
        f = facts_of(st)
        if st.dec_before.error:
            continue  # the document was already broken before this step (C07's business)
        if st.outcome == "ok":
            if st.dec_out.error:
                out.append(Violation("C05.invalid_output", "emitted text has a syntax error: %r" % st.out[:120], st.i, f))
                continue
            if st.pred[0] != "ok":
                continue  # unspecified: only validity; predicted rejection that succeeds is C08's
            if not st.dec_out.shape.editable:
                out.append(Violation("C05.shape_lost", "output is no longer an editable document", st.i, f))
                continue
            actual = snapshot_of(st.dec_out)
            if actual != st.expected:
                out.append(Violation("C05.wrong_tree", "decoded output differs from the model: expected %r got %r" % (st.expected, actual), st.i, f))
                continue
            want_outer = st.dec_before.shape.outer_kinds()
            if st.pred[1] == "create_layer" and want_outer[-1:] == ["call"]:
                want_outer = want_outer + ["paren"]  # `f (let … in { … })`: a let argument needs parentheses
            got_outer = st.dec_out.shape.outer_kinds()
            if st.pred[1] == "drop_layer" and want_outer[-2:] == ["call", "paren"] and got_outer == want_outer[:-1] and not st.dec_out.layers:
                got_outer = want_outer  # the parentheses around a let argument may go with the last layer
            if got_outer != want_outer:
                out.append(Violation("C05.wrappers_changed", "wrapper chain changed: %r -> %r" % (st.dec_before.shape.outer_kinds(), st.dec_out.shape.outer_kinds()), st.i, f))
                continue
            for ms in (st.dec_out.target,) + tuple(st.dec_out.layers):
                _, dups = reader.flatten(reader.strip_ext(ms))
                if dups:
                    out.append(Violation("C05.duplicate_attr", "attribute defined twice: %r" % (dups,), st.i, f))
                    break
            if st.after_live is not None:
                dl = reader.decode(st.after_live)
                if dl.error or not dl.shape.editable or snapshot_of(dl) != actual:
                    out.append(Violation("C05.live_disagrees", "live object rebuilds to a different tree than the emitted text", st.i, f))
        else:
            if st.pred[0] == "ok":
                out.append(Violation("C05.refused", "well-formed edit refused with %s: %s" % (st.exc_class, st.exc_msg), st.i, f))
    return out


# ---------------------------------------------------------------------------
# C06: emitted text is a fixed point
# ---------------------------------------------------------------------------


import re as _re

# `{ a, b, }:` / `{\n  a,\n}@args:` - the closing brace of an argument set right after a comma
_TRAILING_COMMA_FORMALS = _re.compile(r",\s*(?:(?:#[^\n]*\n|/\*.*?\*/)\s*)*\}\s*(?::|@)", _re.S)


def fixed_point_violation(text: str, what: str, step, facts) -> Violation | None:
    from nix_manipulator import parse

    if reader.Doc(text).has_error():
        return None  # not valid: C05's business
    src = parse(text)
    if src.contains_error:
        return Violation("C06.error_flag", "%s: library flags an error the CST does not have" % what, step, facts)
    again = src.rebuild()
    if again != text:
        return Violation("C06.drift", "%s is not a fixed point: %r -> %r" % (what, text[-160:], again[-160:]), step, facts)
    return None


def oracle_c06(doc: str, steps: list[Step], *, check_start: bool = True) -> list[Violation]:
    from nix_manipulator import parse

    out: list[Violation] = []
    if check_start and not reader.Doc(doc).has_error():
        first = parse(doc).rebuild()
        v = fixed_point_violation(first, "rebuilt start document", None, {"op": "start", "mode": "fresh"})
        if v:
            out.append(v)
        elif reader.Doc(first).has_error():
            # a plain rebuild of a valid source that the library's own parser no longer accepts: `nima test` says Fail
            out.append(Violation("C06.rebuilt_invalid", "the rebuilt start document has a syntax error: %r" % first[-200:], None,
                                 {"op": "start", "mode": "fresh", "trailing_comma_formals": bool(_TRAILING_COMMA_FORMALS.search(first))}))
    for st in steps:
        if st.outcome != "ok":
            continue
        if not st.fresh and not _is_fixed_point(st.before):
            # the live document was already unstable before this step (reported at the step that made it so)
            continue
        v = fixed_point_violation(st.out, "text emitted by %s" % st.op["op"], st.i, facts_of(st))
        if v:
            out.append(v)
    return out


# ---------------------------------------------------------------------------
# C08: a rejected edit is loud and leaves the document as it was
# ---------------------------------------------------------------------------


def oracle_c08(doc: str, ops: list[dict], steps: list[Step]) -> list[Violation]:
    out: list[Violation] = crash_violations("C08", steps)
    steps = [st for st in steps if st.outcome != "rebuild_crash"]
    any_failed = False
    for st in steps:
        f = facts_of(st)
        if st.dec_before.error and not st.fresh:
            continue  # live object whose own rebuild is already invalid: C05's finding, not this step's
        if st.outcome == "exc":
            any_failed = True
            if st.pred[0] == "reject" and not ({"KeyError", "ValueError"} & set(st.exc_mro)):
                out.append(Violation("C08.wrong_class", "rejected with %s (%s), not KeyError/ValueError" % (st.exc_class, st.exc_msg), st.i, f))
            if st.after_live != st.before_live:
                out.append(Violation("C08.mutated", "document changed by a failed %s: %r -> %r" % (st.op["op"], st.before_live, st.after_live), st.i, f))
        elif st.pred[0] == "reject":
            out.append(Violation("C08.silent", "edit that must be refused (%s) succeeded: %r" % (st.pred[2], (st.out or "")[:120]), st.i, f))
    if any_failed and not out:
        # as-if-never-happened: same history without the failing operations
        failed = {st.i for st in steps if st.outcome == "exc"}
        twin_ops = [op for i, op in enumerate(ops) if i not in failed]
        twin = run_history(doc, twin_ops, predict=False)
        mine = [st for st in steps if st.outcome == "ok"]
        theirs = [st for st in twin if st.outcome == "ok"]
        if len(twin) != len(mine) or len(theirs) != len(mine):
            out.append(Violation("C08.twin_diverged", "history without the failed operations behaves differently (%d vs %d successes)" % (len(mine), len(theirs)), None, {"op": "twin"}))
        else:
            for a, b in zip(mine, theirs):
                if a.out != b.out:
                    out.append(Violation("C08.twin_diverged", "after a failed edit, %r emits %r instead of %r" % (a.op, a.out[-120:], b.out[-120:]), a.i, facts_of(a)))
                    break
    return out


# ---------------------------------------------------------------------------
# C04: an edit touches only the binding it addresses
# ---------------------------------------------------------------------------


def _is_fixed_point(text: str) -> bool:
    from nix_manipulator import parse

    try:
        return parse(text).rebuild() == text
    except Exception:  # noqa: BLE001
        return False


def _line_flags(dec, path: str):
    """For the target set and every explicit nested set along *path*: does its text span several lines?"""
    from .model import PathError, PathUnspecified, parse_npath

    try:
        depth, segs = parse_npath(path)
    except (PathError, PathUnspecified):
        depth, segs = 0, []
    data = dec.doc.data
    node = dec.shape.target
    flags = [b"\n" in data[node.start_byte:node.end_byte]]
    lets = dec.shape.layers()
    if depth and depth <= len(lets):
        node = lets[depth - 1]  # scoped path: walk the nested sets of that let layer
    for seg in segs[:-1]:
        nxt = None
        for c in node.named_children:
            if c.type != "binding_set":
                continue
            for b in c.named_children:
                if b.type != "binding":
                    continue
                ap = b.child_by_field_name("attrpath")
                ex = b.child_by_field_name("expression")
                names = [reader.decode_attr(x) for x in ap.named_children if x.type != "comment"]
                if names == [seg] and ex.type in reader.SET_TYPES:
                    nxt = ex
        if nxt is None:
            break
        node = nxt
        flags.append(b"\n" in data[node.start_byte:node.end_byte])
    return flags


def _nonempty_sets_on_path(dec, path: str, indexes) -> bool:
    """Do the sets number *indexes* along *path* (0 = target set / let layer) have at least one member each?"""
    from .model import PathError, PathUnspecified, parse_npath

    try:
        depth, segs = parse_npath(path)
    except (PathError, PathUnspecified):
        return False
    node = dec.shape.target
    lets = dec.shape.layers()
    nodes = [node]
    if depth and depth <= len(lets):
        node = lets[depth - 1]
    for seg in segs[:-1]:
        nxt = None
        for c in node.named_children:
            if c.type != "binding_set":
                continue
            for b in c.named_children:
                if b.type != "binding":
                    continue
                ap = b.child_by_field_name("attrpath")
                ex = b.child_by_field_name("expression")
                names = [reader.decode_attr(x) for x in ap.named_children if x.type != "comment"]
                if names == [seg] and ex.type in reader.SET_TYPES:
                    nxt = ex
        if nxt is None:
            break
        node = nxt
        nodes.append(node)
    for k in indexes:
        if k >= len(nodes):
            return False
        if not any(c.type == "binding_set" and c.named_child_count for c in nodes[k].named_children):
            return False
    return True


def _roundtrip_neutral(text: str) -> bool:
    """Does parse/rebuild alone keep tokens and comment positions of *text*?"""
    import bisect

    from nix_manipulator import parse

    try:
        again = parse(text).rebuild()
    except Exception:  # noqa: BLE001
        return False
    a, b = reader.Doc(text), reader.Doc(again)
    ta, tb = a.tokens(), b.tokens()
    if [t[0] for t in ta] != [t[0] for t in tb]:
        return False
    sa, sb = [t[1] for t in ta], [t[1] for t in tb]
    ca = [(c[0], bisect.bisect_left(sa, c[1])) for c in a.comments()]
    cb = [(c[0], bisect.bisect_left(sb, c[1])) for c in b.comments()]
    return ca == cb


def oracle_c04(steps: list[Step], counters: dict | None = None) -> list[Violation]:
    from . import locality

    out: list[Violation] = []
    counters = counters if counters is not None else {}

    def bump(k):
        counters[k] = counters.get(k, 0) + 1

    for st in steps:
        if st.outcome != "ok" or st.pred[0] != "ok":
            continue
        if st.dec_before.error:
            bump("skip:before_invalid")
            continue
        if st.dec_out.error or not st.dec_out.shape.editable:
            bump("skip:invalid_output")
            continue
        canonical = (st.before_live == st.before) if st.fresh else _is_fixed_point(st.before)
        if not canonical:
            bump("skip:not_identity")
            if not _roundtrip_neutral(st.before):
                # the plain round trip already moves tokens/comments: C01/C03's business
                bump("skip:roundtrip_not_neutral")
                continue
        f = facts_of(st)
        f["kind"] = st.pred[1]
        f["canonical"] = canonical
        # a set on the addressed path flips between one-line and multi-line layout (a member became / ceased to be multi-line)
        f["layout_switch"] = _line_flags(st.dec_before, st.op["path"]) != _line_flags(st.dec_out, st.op["path"])
        if f["layout_switch"] and canonical:
            # a value that becomes (or ceases to be) multi-line forces the one-line set that holds it into the
            # other layout; braces and separators then change by necessity: token and comment clauses only
            bump("skip:layout_switch")
            canonical = False
            fb, fa = _line_flags(st.dec_before, st.op["path"]), _line_flags(st.dec_out, st.op["path"])
            value = st.op.get("value") or ""
            expanded = [k for k in range(min(len(fb), len(fa))) if not fb[k] and fa[k]]
            if st.op["op"] == "set" and expanded and "\n" not in value and "#" not in value and _nonempty_sets_on_path(st.dec_before, st.op["path"], expanded):
                # nothing multi-line was written, yet a one-line set that had members was expanded: its other
                # members were re-wrapped without need
                out.append(Violation("C04.layout_flip", "set %s %r expanded a one-line set although the value fits on a line: %r -> %r" % (st.op["path"], value[:40], st.before[-120:], (st.out or "")[-160:]), st.i, dict(f)))
                continue
        if canonical and f["depth"] and (_paren_opens_inline(st.dec_before) != _paren_opens_inline(st.dec_out)
                                         or (st.pred[1] in ("create_layer", "drop_layer") and _wrapper_inline_flags(st.dec_before) != _wrapper_inline_flags(st.dec_out))):
            # a let created / pruned directly inside a parenthesis moves the first token off (or onto) the line of
            # `(` (non-RFC `f ( let …`, see section 7 item 18): the content is re-indented as a whole;
            # token and comment clauses only
            bump("skip:paren_reopened")
            canonical = False
        problems = locality.check_step(st, canonical=canonical)
        for suffix, msg in problems:
            if suffix == "skip":
                bump("skip:" + msg.split(" ")[0])
                continue
            oracle, _, detail = suffix.partition(":")
            f2 = dict(f)
            if detail:
                f2["lost"] = detail
            out.append(Violation("C04." + oracle, "%s %s: %s" % (st.op["op"], st.op["path"], msg), st.i, f2))
        if not problems:
            bump("checked:" + st.pred[1] + (":bytes" if canonical else ":tokens"))
    return out


# ---------------------------------------------------------------------------
# C09: scope selectors address exactly the intended let layer
# ---------------------------------------------------------------------------


def _layer_heads(dec: reader.Decoded):
    """(bytes of `let … in`, tokens) for each layer directly around the target, innermost first."""
    out = []
    data = dec.doc.data
    for let in dec.shape.layers():
        inn = None
        for c in let.children:
            if c.type == "in":
                inn = c
        head = data[let.start_byte:inn.end_byte]
        toks = [t[0] for t in dec.doc.tokens(let) if t[2] <= inn.end_byte]
        out.append((head, toks))
    return out


def _paren_opens_inline(dec: reader.Decoded):
    """The parenthesis directly around the target's let chain: True if its content starts on the line of `(`,
    False if on a later line, None without such a parenthesis."""
    par = None
    for kind, node in reversed(dec.shape.wrappers):
        if kind == "let":
            continue
        if kind == "paren":
            par = node
        break
    if par is None:
        return None
    kids = [c for c in par.children if c.type not in ("(", ")")]
    if not kids:
        return None
    return kids[0].start_point[0] == par.start_point[0]


def _wrapper_inline_flags(dec: reader.Decoded):
    """For every non-let wrapper around the target (lambda, with, assert, call, parenthesis): does what it wraps
    start on the line where the wrapper's preceding token (`:`, `;`, callee, `(`) ends?"""
    flags = []
    ws = list(dec.shape.wrappers)
    for k, (kind, node) in enumerate(ws):
        if kind == "let":
            continue
        inner = ws[k + 1][1] if k + 1 < len(ws) else dec.shape.target
        prev = inner.prev_sibling
        while prev is not None and prev.type == "comment":
            prev = prev.prev_sibling
        flags.append(None if prev is None else prev.end_point[0] == inner.start_point[0])
    return tuple(flags)


def _gap_comments(dec: reader.Decoded):
    """Comments outside every `let … in` head and outside the target set's braces, in document order:
    header, lambda head, between the layers, between the innermost `in` and the body, after the body."""
    spans = []
    for let in dec.shape.layers():
        inn = None
        for c in let.children:
            if c.type == "in":
                inn = c
        spans.append((let.start_byte, inn.end_byte))
    t = dec.shape.target
    spans.append((t.start_byte, t.end_byte))
    return [c[0] for c in dec.doc.comments() if not any(lo <= c[1] and c[2] <= hi for lo, hi in spans)]


def oracle_c09(steps: list[Step], counters: dict | None = None) -> list[Violation]:
    out: list[Violation] = []
    counters = counters if counters is not None else {}

    def bump(k):
        counters[k] = counters.get(k, 0) + 1

    out.extend(crash_violations("C09", steps))
    for st in steps:
        if st.outcome == "rebuild_crash":
            continue
        f = facts_of(st)
        if not f["depth"]:
            continue
        if st.dec_before.error or not st.dec_before.shape.editable:
            bump("skip:before_invalid")
            continue
        if st.pred[0] == "unspecified":
            bump("skip:unspecified")
            if st.outcome == "ok" and st.dec_out.error:
                out.append(Violation("C09.invalid_output", "scoped edit emitted a syntax error: %r" % st.out[:160], st.i, f))
            continue
        if st.pred[0] == "reject":
            if st.pred[2] == "missing scope layer":
                bump("probe:missing_layer")
                if st.outcome == "ok":
                    out.append(Violation("C09.missing_layer_accepted", "selector deeper than the existing layers succeeded: %r" % st.out[:160], st.i, f))
            if st.outcome == "exc" and st.after_live != st.before_live:
                # "in every case the attribute set body and the other layers keep their text"
                out.append(Violation("C09.refusal_changed_text", "a refused scoped edit (%s) changed the document: %r -> %r" % (st.pred[2], st.before_live[-120:], (st.after_live or "")[-120:]), st.i, f))
            continue
        # pred ok
        kind = st.pred[1]
        f["kind"] = kind
        if st.outcome != "ok":
            out.append(Violation("C09.refused", "scoped edit refused with %s: %s" % (st.exc_class, st.exc_msg), st.i, f))
            continue
        if st.dec_out.error:
            out.append(Violation("C09.invalid_output", "scoped edit emitted a syntax error: %r" % st.out[:160], st.i, f))
            continue
        if not st.dec_out.shape.editable:
            out.append(Violation("C09.shape_lost", "output is no longer an editable document", st.i, f))
            continue
        actual = snapshot_of(st.dec_out)
        if actual[0] != st.expected[0]:
            out.append(Violation("C09.wrong_layer", "let chain differs from the model (innermost first): expected %r got %r" % (st.expected[0], actual[0]), st.i, f))
            continue
        bump("probe:depth%d_of_%d:%s" % (f["depth"], f["nlayers"], kind))
        canonical = (st.before_live == st.before) if st.fresh else _is_fixed_point(st.before)
        # body untouched
        tb, ta = st.dec_before.shape.target, st.dec_out.shape.target
        body_b = st.dec_before.doc.data[tb.start_byte:tb.end_byte]
        body_a = st.dec_out.doc.data[ta.start_byte:ta.end_byte]
        reindented = kind == "create_layer" and st.dec_before.shape.kinds()[-1:] == ["call"]
        shifted = b"\n".join((b"  " + ln if ln.strip() and k else ln) for k, ln in enumerate(body_b.split(b"\n")))
        unshifted = b"\n".join((ln[2:] if ln.startswith(b"  ") and k else ln) for k, ln in enumerate(body_b.split(b"\n")))
        dedented = (kind == "drop_layer" and st.dec_before.shape.outer_kinds()[-2:] == ["call", "paren"]
                    and st.dec_out.shape.outer_kinds()[-1:] == ["call"] and body_a == unshifted)
        tokens_same = st.dec_before.doc.token_texts(tb) == st.dec_out.doc.token_texts(ta)
        if reindented and tokens_same:
            shifted = body_a  # moved into parentheses: the exact re-indentation of odd layouts is not asserted
        if (kind == "drop_layer" and st.dec_before.shape.outer_kinds()[-2:] == ["call", "paren"]
                and st.dec_out.shape.outer_kinds()[-1:] == ["call"] and tokens_same):
            dedented = True
        # a let that sat on the line of `(` (non-RFC) was pruned: the library opens the parenthesis on a new line
        # and indents what is inside; only the indentation of the body may differ then
        reopened = (kind in ("drop_layer", "create_layer") and None not in (_paren_opens_inline(st.dec_before), _paren_opens_inline(st.dec_out))
                    and _paren_opens_inline(st.dec_before) != _paren_opens_inline(st.dec_out) and tokens_same)
        if reopened:
            bump("probe:paren_reopened")
        if canonical and body_b != body_a and not (reindented and body_a == shifted) and not dedented and not reopened:
            out.append(Violation("C09.body_changed", "attribute set body changed by a scoped edit: %r -> %r" % (body_b[-120:], body_a[-120:]), st.i, f))
            continue
        if st.dec_before.doc.token_texts(tb) != st.dec_out.doc.token_texts(ta):
            out.append(Violation("C09.body_changed", "attribute set body tokens changed by a scoped edit", st.i, f))
            continue
        # other layers untouched
        hb = _layer_heads(st.dec_before)
        ha = _layer_heads(st.dec_out)
        d = f["depth"] - 1
        if kind == "create_layer":
            pairs = list(zip(hb, ha[1:]))
        elif kind == "drop_layer":
            pairs = list(zip(hb[:d] + hb[d + 1:], ha))
        else:
            pairs = [(b, a) for k, (b, a) in enumerate(zip(hb, ha)) if k != d]
        for (b_head, b_toks), (a_head, a_toks) in pairs:
            if b_toks != a_toks or (canonical and not reopened and b_head != a_head):
                out.append(Violation("C09.other_layer_changed", "a let layer that was not addressed changed: %r -> %r" % (b_head[-120:], a_head[-120:]), st.i, f))
                break
        else:
            # the comments between a layer's `in` and what it wraps belong to "the other layers / the body":
            # whatever layer is created, edited or pruned, they stay, in order
            # (baseline: what a plain rebuild of the same object printed, so that a round trip that is
            # not neutral for this document - a C03 matter - is not charged to the edit)
            base = st.dec_before
            if st.before_live is not None and st.before_live != st.before:
                base = reader.decode(st.before_live)
                if base.error or not base.shape.editable:
                    bump("skip:gap_baseline_invalid")
                    continue
            gb, ga = _gap_comments(base), _gap_comments(st.dec_out)
            if gb:
                bump("probe:gap_comments")
            if gb != ga:
                out.append(Violation("C09.gap_comment_changed", "comments between the layers changed: %r -> %r" % (gb, ga), st.i, f))
    return out


# ---------------------------------------------------------------------------
# C11: editing through a reference updates exactly the defining binding
# ---------------------------------------------------------------------------


def _has_self_named_binding(root) -> bool:
    """Is there a binding `n = n;` (value is the bare name of the attribute itself) anywhere in the text?"""
    stack = [root]
    while stack:
        n = stack.pop()
        if n.type == "binding":
            ap = n.child_by_field_name("attrpath")
            ex = n.child_by_field_name("expression")
            if ap is not None and ex is not None and ex.type == "variable_expression" and ap.text == ex.text:
                return True
        stack.extend(n.children)
    return False


def _sibling_value_extent(dec, segs, name):
    """Value extent of attribute *name* in the set that holds the attribute addressed by *segs*."""
    members = dec.target
    for seg in segs[:-1]:
        nxt = None
        for m in members:
            if m[0] == "b" and m[1] == (seg,) and m[2][0] == "set":
                nxt = m[2][2]
        if nxt is None:
            return None
        members = nxt
    for m in members:
        if m[0] == "b" and m[1] == (name,):
            return m[3]["value"]
    return None


def oracle_c11(steps: list[Step], counters: dict | None = None) -> list[Violation]:
    from . import resolver
    from .model import PathError, PathUnspecified, parse_npath

    out: list[Violation] = []
    counters = counters if counters is not None else {}

    def bump(k):
        counters[k] = counters.get(k, 0) + 1

    out.extend(crash_violations("C11", steps))
    for st in steps:
        if st.outcome == "rebuild_crash" or st.op["op"] not in ("set", "assign"):
            continue
        try:
            depth, segs = parse_npath(st.op["path"])
        except (PathError, PathUnspecified):
            continue
        if depth != 0 or st.dec_before is None or st.dec_before.error or not st.dec_before.shape.editable:
            continue
        res, info = resolver.resolve_attr(st.before, segs)
        if res is None or not info.get("is_reference"):
            continue
        value_text = st.op["value"]
        vtoks = reader.tokens_of_text(value_text)
        wr = info.get("wrappers") or []
        first_let = wr.index("let") if "let" in wr else None
        f = {"op": st.op["op"], "mode": "fresh" if st.fresh else "live", "expected": res.kind, "binder": res.binder, "via": res.via,
             "wrappers": wr, "chain": res.chain, "exc": st.exc_class,
             "let_separated": first_let is not None and any(k in ("assert", "lambda", "call", "paren") for k in wr[first_let + 1:]),
             "has_with": "with" in wr, "target_rec": st.dec_before.rec}
        first_scope = min([wr.index(k) for k in ("let", "with") if k in wr], default=None)
        # some let/with wrapper is separated from the target set by an assert, lambda head, call or parenthesis
        f["separated"] = first_scope is not None and any(k in ("assert", "lambda", "call", "paren") for k in wr[first_scope + 1:])
        f["broken_chain"] = res.kind == "unbound" and res.last_extent is not None
        f["self_named_binding"] = _has_self_named_binding(st.dec_before.doc.root)
        bump("reference_edits")
        bump("expected:" + res.kind)
        if res.kind == "value":
            s, e = res.extent
            bump("binder:" + str(res.binder))
        elif res.kind == "unbound":
            # the chain ends at the last bound link (its value is the unbound name); with no link at all
            # the binding at the path itself is overwritten
            s, e = res.last_extent if res.last_extent is not None else info["value_extent"]
        else:
            bump("skip:" + res.kind)
            if st.outcome == "ok" and st.dec_out is not None and st.dec_out.error:
                out.append(Violation("C11.invalid_output", "edit through a reference emitted a syntax error", st.i, f))
            continue
        if st.outcome != "ok":
            if st.op["op"] == "assign" and st.exc_class == "ResolutionError":
                # assignment through the identifier needs resolution; an explicit resolution failure is C10's
                # tolerated outcome ("or fails explicitly"), counted here by expectation
                bump("assign_refused_resolution_error:" + res.kind)
                continue
            out.append(Violation("C11.refused", "edit of %s (reference to %s) refused with %s: %s" % (st.op["path"], info.get("ref_name"), st.exc_class, st.exc_msg), st.i, f))
            continue
        if st.dec_out.error:
            out.append(Violation("C11.invalid_output", "edit through a reference emitted a syntax error: %r" % st.out[-160:], st.i, f))
            continue
        data = st.dec_before.doc.data
        btoks = st.dec_before.doc.tokens()
        expected = [t[0] for t in btoks if t[2] <= s] + list(vtoks) + [t[0] for t in btoks if t[1] >= e]
        got = st.dec_out.doc.token_texts()
        own_s, own_e = info["value_extent"]
        alt = [t[0] for t in btoks if t[2] <= own_s] + list(vtoks) + [t[0] for t in btoks if t[1] >= own_e]
        if got != expected and f["broken_chain"] and got == alt:
            # the chain ends in an unbound name: overwriting the reference itself is as defensible as
            # overwriting the last bound link; not asserted either way
            bump("broken_chain_overwrote_reference")
            continue
        if got != expected:
            # describe what changed instead
            if res.kind == "value" and got == alt:
                what = "the reference itself was overwritten instead of the defining binding (%s, via %s)" % (res.tokens, res.via)
                f["symptom"] = "overwrote_reference"
            else:
                k = 0
                while k < min(len(got), len(expected)) and got[k] == expected[k]:
                    k += 1
                what = "another binding changed: near token %d expected …%r got …%r" % (k, expected[max(0, k - 4):k + 4], got[max(0, k - 4):k + 4])
                f["symptom"] = "other_binding"
                sib = _sibling_value_extent(st.dec_before, segs, info.get("ref_name"))
                if sib is not None:
                    ss, se = sib
                    alt2 = [t[0] for t in btoks if t[2] <= ss] + list(vtoks) + [t[0] for t in btoks if t[1] >= se]
                    if got == alt2:
                        f["symptom"] = "sibling_fallback"
                        what = "the same-named sibling attribute of a non-rec set was rewritten although it is not in scope there"
            out.append(Violation("C11.wrong_binding", "set %s = %s through reference %s: %s" % (st.op["path"], value_text, info.get("ref_name"), what), st.i, f))
            continue
        bump("checked:tokens")
        canonical = (st.before_live == st.before) if st.fresh else _is_fixed_point(st.before)
        if canonical:
            odata = st.dec_out.doc.data
            tail = data[e:]
            if not (odata.startswith(data[:s]) and odata.endswith(tail) and len(odata) >= s + len(tail)):
                out.append(Violation("C11.bytes", "text outside the defining binding's value changed: %r -> %r" % (data[max(0, s - 30):e + 30], odata[max(0, s - 30):s + 60]), st.i, f))
                continue
            bump("checked:bytes")
    return out
