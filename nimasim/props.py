"""Property table: for each claimed property a case generator and an executor.

A *case* is a JSON-serialisable dict (the replay file stores exactly this); the
executor is a pure function of the case and the code under test.
"""

from __future__ import annotations

from . import gen, model, reader, session
from .core import Streams, Violation
from .model import DocModel

MAX_DOC_LINES = 120

# ---------------------------------------------------------------------------
# session cases
# ---------------------------------------------------------------------------


def gen_session_case(prop: str, seed: int, tier: str, *, profile: str = "edit", scoped_bias: float = 0.15,
                     fail: bool | None = None, multiline_boost: bool = False) -> dict:
    st = Streams(seed)
    cfg = gen.swarm(st("swarm"), tier, profile=profile)
    cfg["multiline_boost"] = multiline_boost
    # VALUE arguments that carry an end-of-line comment: only where refusal / validity is the question
    cfg["commented_values"] = prop in ("C05", "C08")
    if fail is True:
        cfg["fail_rate"] = st("swarm").choice([0.2, 0.4, 0.6])
    elif fail is False:
        cfg["fail_rate"] = 0.0
    doc = gen.DocGen(st("doc"), cfg, docnum=seed % 1000).document()
    attempt = 0
    while doc.count("\n") > MAX_DOC_LINES:
        # py-tree-sitter 0.26 corrupts memory for Point rows/columns > 256
        # (refcount bug in point_new_internal), so documents stay small.
        attempt += 1
        cfg["max_members"] = max(1, cfg["max_members"] - 1)
        cfg["max_depth"] = max(0, cfg["max_depth"] - 1)
        doc = gen.DocGen(Streams(seed)("doc%d" % attempt), cfg, docnum=seed % 1000).document()
    if cfg.get("perturb"):
        doc = gen.perturb_whitespace(st("perturb"), doc)
    dm = DocModel(reader.decode(doc))
    og = gen.OpGen(st("ops"), cfg, seed)
    rr = st("restart")
    ops: list[dict] = []
    budget = cfg["ops"]
    while budget > 0 or og.plan:
        budget -= 1
        scripted = bool(og.plan)  # a scripted triple runs to its end on the same object
        if not scripted and (cfg["restart"] == "restart" or (cfg["restart"] == "mixed" and rr.random() < 0.4)):
            if ops:
                ops.append({"op": "restart"})
        op = og.pick(dm, scoped_bias=scoped_bias)
        ops.append(op)
        res = dm.apply(op)
        if res[0] == "unspecified":
            break
    return {"prop": prop, "engine": "session", "seed": seed, "tier": tier, "cfg": cfg, "doc": doc, "ops": ops}


def session_stats(case: dict, steps) -> dict:
    s: dict = {"ops": len(steps), "restarts": sum(1 for o in case["ops"] if o["op"] == "restart")}
    for st in steps:
        f = session.facts_of(st)
        s["outcome:" + st.outcome] = s.get("outcome:" + st.outcome, 0) + 1
        if st.pred:
            key = "pred:" + st.pred[0] + (":" + st.pred[1] if st.pred[0] == "ok" else "")
            s[key] = s.get(key, 0) + 1
            if st.pred[0] != "ok":
                k2 = "why:" + str(st.pred[-1])
                s[k2] = s.get(k2, 0) + 1
        s["mode:" + f["mode"]] = s.get("mode:" + f["mode"], 0) + 1
        if f["depth"]:
            s["scoped_ops"] = s.get("scoped_ops", 0) + 1
        for w in set(f["wrappers"] or []):
            s["wrapper:" + w] = s.get("wrapper:" + w, 0) + 1
    return s


def state_key(steps) -> list:
    """Distinct-state measure: hash of (decoded tree before, op kind, outcome)."""
    from .core import digest

    keys = []
    for st in steps:
        keys.append(digest([st.model_before, st.op["op"], st.op.get("path"), st.outcome, st.fresh]))
    return keys


class SessionProperty:
    engine = "session"

    def __init__(self, pid: str, *, profile="edit", scoped_bias=0.15, fail=None, quick_runs=30000, thorough_runs=600000, multiline_boost=False):
        self.multiline_boost = multiline_boost
        self.pid = pid
        self.profile = profile
        self.scoped_bias = scoped_bias
        self.fail = fail
        self.runs = {"quick": quick_runs, "thorough": thorough_runs}

    def generate(self, seed: int, tier: str) -> dict:
        return gen_session_case(self.pid, seed, tier, profile=self.profile, scoped_bias=self.scoped_bias, fail=self.fail,
                                multiline_boost=self.multiline_boost)

    def oracles(self, case, steps) -> list[Violation]:
        raise NotImplementedError

    def execute(self, case: dict):
        steps = session.run_history(case["doc"], case["ops"])
        viols = self.oracles(case, steps)
        stats = session_stats(case, steps)
        return viols, stats, state_key(steps)

    # shrinking candidates ------------------------------------------------
    def shrink_candidates(self, case: dict):
        ops = case["ops"]
        n = len(ops)
        # drop chunks of operations, largest first
        size = n // 2
        while size >= 1:
            for start in range(0, n, size):
                new = ops[:start] + ops[start + size:]
                if new and len(new) < n:
                    c = dict(case)
                    c["ops"] = new
                    yield c
            size //= 2
        # drop lines of the document
        lines = case["doc"].split("\n")
        size = max(1, len(lines) // 2)
        while size >= 1:
            for start in range(0, len(lines), size):
                new_lines = lines[:start] + lines[start + size:]
                doc = "\n".join(new_lines)
                if doc != case["doc"] and not reader.Doc(doc).has_error() and not reader.EMPTY_LET.search(doc) and doc.strip():
                    c = dict(case)
                    c["doc"] = doc
                    yield c
            size //= 2
        # simplify values
        for i, op in enumerate(ops):
            if op.get("value") not in (None, "7"):
                c = dict(case)
                c["ops"] = ops[:i] + [dict(op, value="7")] + ops[i + 1:]
                yield c


class C04(SessionProperty):
    """Edit histories on literal documents plus (one case in seven) histories on reference-laden programs, where the
    addressed binding of a write-through edit is the one the reference model names."""

    def generate(self, seed: int, tier: str) -> dict:
        if Streams(seed)("kind").random() < 0.15:
            case = PROPERTIES["C11"].generate(seed, tier)
            case.update(prop="C04", kind="reference")
            return case
        return SessionProperty.generate(self, seed, tier)

    def execute(self, case: dict):
        steps = session.run_history(case["doc"], case["ops"])
        counters: dict = {}
        if case.get("kind") == "reference":
            # which binding a write-through edit addresses is C11's question; that the edit lands on *some other*
            # binding than the reference and its definition is C04's ("everything outside the addressed binding")
            viols = []
            for v in session.oracle_c11(steps, counters):
                if v.oracle == "C11.wrong_binding" and v.facts.get("symptom") == "other_binding":
                    viols.append(Violation("C04.reference_edit_elsewhere", v.message, v.step, dict(v.facts, reference_case=True)))
                else:
                    counters["c11_domain:" + v.oracle] = counters.get("c11_domain:" + v.oracle, 0) + 1
            stats = session_stats(case, steps)
            stats.update({"ref:" + k: n for k, n in counters.items()})
            stats["reference_cases"] = 1
            return viols, stats, state_key(steps)
        viols = session.oracle_c04(steps, counters)
        stats = session_stats(case, steps)
        stats.update(counters)
        return viols, stats, state_key(steps)


class C09(SessionProperty):
    def generate(self, seed: int, tier: str) -> dict:
        case = SessionProperty.generate(self, seed, tier)
        rng = Streams(seed)("scope_del")
        if rng.random() < 0.2 and case["ops"]:
            # the live object's layer list is also changed behind the CLI helpers' back: a binding of the
            # outermost layer is deleted through the scope mapping, then the scoped edits go on
            dec = reader.decode(case["doc"])
            if not dec.error and dec.shape.editable and len(dec.layers) >= 2 and all(k == "let" for k in dec.shape.kinds()):
                names = [m[1][0] for m in dec.layers[-1] if m[0] == "b" and len(m[1]) == 1 and model._BARE.match(m[1][0])]
                if names:
                    pos = rng.randrange(len(case["ops"]))
                    case["ops"].insert(pos, {"op": "scope_del", "name": rng.choice(names)})
                    case["ops"].insert(pos + 1, {"op": "set", "path": "@" * len(dec.layers) + rng.choice(["x", "nu"]), "value": "7"})
        return case

    def execute(self, case: dict):
        steps = session.run_history(case["doc"], case["ops"])
        counters: dict = {}
        viols = session.oracle_c09(steps, counters)
        stats = session_stats(case, steps)
        stats.update(counters)
        return viols, stats, state_key(steps)


class C11(SessionProperty):
    """Edit histories on reference-laden documents (scopegen programs)."""

    def generate(self, seed: int, tier: str) -> dict:
        from . import scopegen

        st = Streams(seed)
        rng = st("c11")
        g = scopegen.ScopeGen(st("doc"), seed % 800 + 100, max_wrappers=rng.choice([0, 1, 2, 3, 4]), cycles=False)
        prog = g.program()
        ops: list[dict] = []
        tag = (seed % 800 + 100) * 1000 + 900
        mode = rng.choice(["live", "restart", "mixed"])
        for k in range(rng.randint(1, 4)):
            if ops and (mode == "restart" or (mode == "mixed" and rng.random() < 0.4)):
                ops.append({"op": "restart"})
            tag += 1
            probe = rng.choice(prog["probes"])
            r = rng.random()
            if r < 0.6:
                value = str(tag)
            elif r < 0.75:
                value = rng.choice(['"v%d"' % tag, "[ %d ]" % tag])
            else:
                value = rng.choice(scopegen.NAMES)  # write a *reference*: a new link of a chain
            kind = "set" if rng.random() < 0.8 else "assign"
            if rng.random() < 0.2:
                # change which binding defines a name: add / remove a same-named attribute of the target set
                nm = rng.choice(scopegen.NAMES)
                ops.append({"op": "rm", "path": nm} if rng.random() < 0.4 else {"op": "set", "path": nm, "value": str(tag + 50)})
                if mode != "live" and rng.random() < 0.5:
                    ops.append({"op": "restart"})
            elif ops and rng.random() < 0.25:
                # ... or a same-named binding of a let layer (added to / removed from the innermost or the next
                # layer; without any layer the first one is created): what the name means changes between two
                # write-through edits of one object
                nm = rng.choice(scopegen.NAMES)
                at = rng.choice(["@", "@", "@@"])
                ops.append({"op": "rm", "path": at + nm} if rng.random() < 0.3 else {"op": "set", "path": at + nm, "value": str(tag + 70)})
            ops.append({"op": kind, "path": ".".join(probe), "value": value})
        return {"prop": "C11", "engine": "session", "seed": seed, "tier": tier, "cfg": {}, "doc": prog["text"], "ops": ops}

    def execute(self, case: dict):
        steps = session.run_history(case["doc"], case["ops"])
        counters: dict = {}
        viols = session.oracle_c11(steps, counters)
        stats = session_stats(case, steps)
        stats.update(counters)
        return viols, stats, state_key(steps)


class C05(SessionProperty):
    def oracles(self, case, steps):
        return session.oracle_c05(steps)


class C06(SessionProperty):
    """Session histories plus zoo start states (one construct per document, random gap shapes)."""

    def generate(self, seed: int, tier: str) -> dict:
        st = Streams(seed)
        if st("kind").random() < 0.4:
            from . import zoo

            z = zoo.Zoo(st("zoo"), seed % 9000 + 1000)
            text, facts = z.document()
            ops = [{"op": "set", "path": "zz9", "value": "1"}] if st("kind").random() < 0.5 else []
            return {"prop": "C06", "engine": "session", "seed": seed, "tier": tier, "cfg": {}, "doc": text, "ops": ops, "zoo": facts}
        return SessionProperty.generate(self, seed, tier)

    def execute(self, case: dict):
        if not case.get("zoo"):
            return SessionProperty.execute(self, case)
        stats = {"zoo_docs": 1, "zoo:" + case["zoo"]["construct"]: 1}
        if reader.Doc(case["doc"]).has_error():
            stats["skip:zoo_invalid"] = 1
            return [], stats, []
        steps = session.run_history(case["doc"], case["ops"])
        viols = session.oracle_c06(case["doc"], steps)
        for v in viols:
            v.facts.update({k: case["zoo"][k] for k in case["zoo"] if k != "gap_seq"})
            v.facts["zoo"] = True
        stats["ops"] = len(steps)
        from .core import digest

        return viols, stats, [digest([case["zoo"]["construct"], case["zoo"]["place"], case["zoo"]["gap_seq"]])]

    def oracles(self, case, steps):
        return session.oracle_c06(case["doc"], steps)


class C08(SessionProperty):
    """Edit histories with refused operations, plus (one case in five) refusal histories of the mapping-style
    API and of set / rm on documents that are not, or no longer, editable (refusal.py)."""

    def generate(self, seed: int, tier: str) -> dict:
        if Streams(seed)("kind").random() < 0.2:
            from . import refusal

            return refusal.generate(seed, tier)
        return SessionProperty.generate(self, seed, tier)

    def execute(self, case: dict):
        if case.get("kind") == "refusal":
            from . import refusal

            return refusal.execute(case)
        return SessionProperty.execute(self, case)

    def shrink_candidates(self, case: dict):
        if case.get("kind") == "refusal":
            from . import refusal

            return refusal.shrink_candidates(case)
        return SessionProperty.shrink_candidates(self, case)

    def oracles(self, case, steps):
        return session.oracle_c08(case["doc"], case["ops"], steps)


from . import c15, clisim, damage, fsworld, laws, mapping, registry  # noqa: E402

PROPERTIES: dict = {
    "C04": C04("C04", scoped_bias=0.2, fail=False),
    "C05": C05("C05", scoped_bias=0.2, fail=False),
    "C06": C06("C06", scoped_bias=0.2, fail=False, multiline_boost=True),
    "C08": C08("C08", scoped_bias=0.2, fail=True),
    "C10": registry.RegistryProperty(),
    "C11": C11("C11"),
    "C14": mapping.MappingProperty(),
    "C07": damage.DamageProperty(),
    "C15": c15.C15Property(),
    "C16": clisim.CliProperty(),
    "C17": fsworld.FsProperty(),
    "C19": laws.LawsProperty(),
    "C09": C09("C09", profile="scope", scoped_bias=0.8, fail=None),
}
