"""Document and operation generators (text only; the reader recovers structure).

Everything is drawn from PRNG streams handed in by the caller; no global state.
"""

from __future__ import annotations

from . import model, reader

NAMES = ["a", "b", "c", "d", "e", "f", "g", "h"]
ROOTS = ["p", "q", "meta"]
LETNAMES = ["u", "v", "w", "a", "b"]
FRESH = ["n", "m", "k", "x1", "y_2", "z'"]
QUOTED = ["a b", "x.y", "1st", "with", "é"]


def fmt_name(name: str) -> str:
    """Canonical spelling of an attribute name inside Nix text / an NPath."""
    if model._BARE.match(name) and name not in ("with", "let", "in", "rec", "inherit", "if", "then", "else", "assert", "or"):
        return name
    return '"' + name.replace("\\", "\\\\").replace('"', '\\"') + '"'


def swarm(rng, tier: str, *, profile: str = "edit") -> dict:
    """Per-run configuration: which features this run uses at all."""
    thorough = tier == "thorough"
    full = rng.random() < (0.6 if thorough else 0.3)

    def on(p_core, p_full=None):
        p = p_core if not full else (p_full if p_full is not None else p_core)
        return rng.random() < p

    cfg = {
        "full": full,
        "max_members": rng.choice([1, 2, 3, 4, 5, 6] if not thorough else [1, 2, 3, 4, 6, 8]),
        "max_depth": rng.choice([0, 1, 2] if not thorough else [0, 1, 2, 3]),
        "nested": on(0.6, 0.7),
        "attrpath": on(0.35, 0.6),
        "inherit": on(0.1, 0.35),
        "rec": on(0.1, 0.3),
        "own_comments": on(0.5, 0.6),
        "eol_comments": on(0.4, 0.5),
        "blank_lines": on(0.4, 0.5),
        "trailing_comment": on(0.2, 0.3),
        "header": on(0.2, 0.3),
        "footer": on(0.15, 0.3),
        "quoted": on(0.15, 0.4),
        "refs": on(0.0, 0.0) if profile != "refs" else True,
        "rich_values": on(0.3, 0.6),
        # equal values on purpose: bindings that compare equal (same leaf name, value and trivia) in one document
        "dup_values": on(0.25, 0.3),
        "in_body_comment": on(0.2, 0.3),
        "paren_call": on(0.3, 0.5),
        "nested_attrpath": on(0.12, 0.25),
        "multiline_boost": False,
        "lambda": on(0.35, 0.45),
        "with": on(0.2, 0.35),
        "assert": on(0.1, 0.25),
        "call": on(0.15, 0.3),
        "paren": on(0.05, 0.15),
        "lets": rng.choice([0, 0, 1, 1, 2] if not thorough else [0, 1, 1, 2, 3]),
        "outer_lets": on(0.05, 0.2),
        "perturb": on(0.12, 0.2),
        "final_newline": rng.random() < 0.9,
        "ops": rng.randint(1, 6 if not thorough else 8),
        "restart": rng.choice(["live", "restart", "mixed"]),
        "fail_rate": rng.choice([0.0, 0.1, 0.3]),
    }
    if profile == "scope":
        cfg["lets"] = rng.choice([0, 1, 2, 3])
    # scripted read / restructure / write-again triples mixed into the operation stream (OpGen._scenario)
    cfg["scenarios"] = rng.random() < 0.4
    cfg["trailing_blank"] = rng.random() < 0.08
    return cfg


class DocGen:
    def __init__(self, rng, cfg: dict, docnum: int = 0):
        self.rng = rng
        self.cfg = cfg
        self.docnum = docnum
        self.counter = 0

    # -- values ---------------------------------------------------------
    def literal(self) -> str:
        if self.cfg.get("dup_values"):
            return self.rng.choice(["true", "true", "1", '"x"'])
        self.counter += 1
        base = (self.docnum % 900 + 100) * 100 + self.counter
        r = self.rng.random()
        if not self.cfg["rich_values"] or r < 0.5:
            return str(base)
        if r < 0.62:
            return '"s%d"' % base
        if r < 0.7:
            return self.rng.choice(['"a${toString %d}b"', '"${lib.v%d}"', '"p-${cfg.n%d}-s"']) % base
        if r < 0.78:
            return self.rng.choice(["true", "false", "null"])
        if r < 0.86:
            return "[ %d %d ]" % (base, base + 50)
        if r < 0.9:
            return "./p%d" % base
        if r < 0.92:
            # path literals and strings that hold whole expressions inside an interpolation
            return self.rng.choice(["./h/${lib.n%d}/x.nix", "./p/${toString (%d + 1)}", '"a${ (x: x) %d }b"', "''c ${toString %d} d''"]) % base
        if r < 0.96:
            return "%d + %d" % (base, 1)
        # multi-line values, '@' = indent marker; some hold a blank line of their own
        return self.rng.choice(["[\n@%d\n@%d\n]", "[\n@%d\n@%d\n]", "[\n@%d\n\n@%d\n]", "''\n@l %d\n\n@m %d\n''"]) % (base, base + 50)

    def comment(self, tag: str) -> str:
        self.counter += 1
        return "# %s%d" % (tag, self.counter)

    # -- members --------------------------------------------------------
    def members(self, depth: int, ind: int, pool: list[str], roots: list[str], *, in_let: bool = False) -> list[str]:
        rng, cfg = self.rng, self.cfg
        n = rng.randint(0 if not in_let else 1, max(1, cfg["max_members"] // (depth + 1)))
        lines: list[str] = []
        pad = " " * ind
        names = list(pool)
        rng.shuffle(names)
        used_roots: list[str] = []
        count = 0
        while count < n and names:
            pre: list[str] = []
            if cfg["own_comments"] and rng.random() < 0.25:
                pre.append(pad + self.comment("c"))
            eol = ""
            if cfg["eol_comments"] and rng.random() < 0.2:
                eol = " " + self.comment("e")
            r = rng.random()
            if cfg["attrpath"] and roots and r < 0.3 and (depth == 0 or cfg.get("nested_attrpath")):
                root = rng.choice(roots)
                k = rng.randint(1, 3)
                subs = rng.sample(["x", "y", "z", "t"], k)
                for i, s in enumerate(subs):
                    seg = root + "." + s
                    if rng.random() < 0.3:
                        seg += "." + rng.choice(["i", "j"])
                    e = eol if i == 0 else ""
                    lines.extend(pre if i == 0 else [])
                    lines.append(pad + "%s = %s;%s" % (seg, self._inline_literal(), e))
                if root not in used_roots:
                    used_roots.append(root)
                roots = [x for x in roots if x != root]
                count += 1
            elif cfg["inherit"] and r < 0.38:
                nm = names.pop()
                src = rng.choice(["", "", "(lib) ", "(s) "])
                lines.extend(pre)
                lines.append(pad + "inherit %s%s;%s" % (src, nm, eol))
                count += 1
            elif cfg["nested"] and depth < cfg["max_depth"] and r < 0.6:
                nm = names.pop()
                if cfg["quoted"] and rng.random() < 0.3:
                    nm = rng.choice(QUOTED)
                    if any(l.lstrip().startswith(fmt_name(nm) + " ") for l in lines):
                        continue
                sub = self.members(depth + 1, ind + 2, NAMES, ["srv", "opt"] if cfg.get("nested_attrpath") else [], in_let=False)
                rec = "rec " if cfg["rec"] and rng.random() < 0.35 else ""
                lines.extend(pre)
                if not sub:
                    lines.append(pad + "%s = %s{ };%s" % (fmt_name(nm), rec, eol))
                elif len(sub) <= 3 and all("\n" not in x and "#" not in x and x.strip() for x in sub) and len(" ".join(x.strip() for x in sub)) < 60 and rng.random() < 0.4:
                    # a one-line nested set (also with several members, also around another one-line set)
                    lines.append(pad + "%s = %s{ %s };%s" % (fmt_name(nm), rec, " ".join(x.strip() for x in sub), eol))
                else:
                    lines.append(pad + "%s = %s{" % (fmt_name(nm), rec))
                    lines.extend(sub)
                    lines.append(pad + "};" + eol)
                count += 1
            else:
                nm = names.pop()
                if cfg["quoted"] and rng.random() < 0.2:
                    nm = rng.choice(QUOTED)
                    if any(l.lstrip().startswith(fmt_name(nm) + " ") for l in lines):
                        continue
                val = self.literal()
                if "\n" in val:
                    val = val.replace("@", " " * (ind + 2)).replace("\n]", "\n" + pad + "]").replace("\n''", "\n" + pad + "''")
                lines.extend(pre)
                lines.append(pad + "%s = %s;%s" % (fmt_name(nm), val, eol))
                count += 1
            if cfg["blank_lines"] and rng.random() < 0.15:
                lines.append("")
        while lines and lines[-1] == "":
            lines.pop()
        if cfg.get("trailing_blank") and lines and not in_let and rng.random() < 0.6:
            # non-RFC but valid and kept by the library: a blank line between the last member and the closing brace
            lines.append("")
        if cfg["attrpath"] and cfg.get("mixed_family", True) and depth == 0 and rng.random() < 0.12:
            # mixed family: a name defined by an explicit set *and* by attrpath bindings (Nix merges them)
            heads = [k for k, l in enumerate(lines) if l.startswith(pad) and not l.startswith(pad + " ") and l.rstrip().endswith("= {") and model._BARE.match(l.strip().split(" ")[0])]
            if heads:
                k = rng.choice(heads)
                nm = lines[k].strip().split(" ")[0]
                leaf = pad + "%s.%s = %s;" % (nm, rng.choice(["q8", "q9"]), self._inline_literal())
                if rng.random() < 0.7:
                    lines.append(leaf)  # explicit set first, attrpath leaf later
                else:
                    lines.insert(k, leaf)
        if lines and cfg["trailing_comment"] and rng.random() < 0.3 and not in_let:
            lines.append(pad + self.comment("t"))
        return lines

    def _inline_literal(self) -> str:
        v = self.literal()
        while "\n" in v:
            v = self.literal()
        return v

    def set_text(self, ind: int, rec: bool = False) -> str:
        lines = self.members(0, ind + 2, NAMES, list(ROOTS))
        prefix = "rec " if rec else ""
        if not lines:
            return prefix + "{ }"
        if len(lines) == 1 and "#" not in lines[0] and "\n" not in lines[0] and self.rng.random() < 0.3:
            return prefix + "{ " + lines[0].strip() + " }"
        return prefix + "{\n" + "\n".join(lines) + "\n" + " " * ind + "}"

    def let_block(self) -> str:
        lines = self.members(1, 2, LETNAMES, ["r"] if self.cfg["attrpath"] else [], in_let=True)
        if not lines:
            lines = ["  u = %s;" % self._inline_literal()]
        kw = "let"
        if self.cfg.get("in_body_comment") and self.rng.random() < 0.25:
            kw = "let " + self.comment("k")  # comment on the `let` line
        return kw + "\n" + "\n".join(lines) + "\nin\n"

    # -- whole document -------------------------------------------------
    def document(self) -> str:
        rng, cfg = self.rng, self.cfg
        head: list[str] = []
        if cfg["header"]:
            head.append(self.comment("header") + "\n")
        if cfg["lambda"] and rng.random() < 0.8:
            form = rng.choice(
                ["{ lib }:\n", "{ lib, stdenv }:\n", "x:\n", "{ lib, ... }@args:\n", "args@{ lib, ... }:\n", "{ lib, o ? 1 }:\n"]
            )
            if rng.random() < 0.15:
                # simple-parameter lambdas whose body set opens on the colon's line (overlay style)
                form = rng.choice(["x: ", "final: prev: ", "self: super: "])
                rec = cfg["rec"] and rng.random() < 0.3
                text = "".join(head) + form + self.set_text(0, rec=rec)
                if cfg["footer"]:
                    text += rng.choice(["\n", " "]) + self.comment("end")
                if cfg["final_newline"]:
                    text += "\n"
                return text
            head.append(form)
            if rng.random() < 0.3:
                head.append("\n")
        if cfg["outer_lets"] and rng.random() < 0.5:
            head.append(self.let_block())
        mids = []
        if cfg["with"] and rng.random() < 0.7:
            mids.append("with lib;\n")
        if cfg["assert"] and rng.random() < 0.7:
            mids.append("assert lib != null;\n")
        rng.shuffle(mids)
        head.extend(mids)
        call = ""
        paren = False
        if cfg["call"] and rng.random() < 0.7:
            call = rng.choice(["f ", "lib.mk ", 'lib.mk "n" ', "stdenv.mkDerivation "])
        elif cfg["paren"] and rng.random() < 0.7:
            paren = True
        paren_call = bool(call) and cfg.get("paren_call") and rng.random() < 0.6
        nlets = cfg["lets"] if (not call and not paren) or paren_call else 0
        if call and not paren_call and cfg["lets"] and rng.random() < 0.5:
            head.append(self.let_block())
        outer_head = None
        if paren_call:
            # `f (\n  let … in\n  { … }\n)`: let layers directly around a call argument, rendered at indent 2
            outer_head, head = head, []
        for k in range(nlets):
            if k and cfg.get("in_body_comment") and rng.random() < 0.4:
                head.append(self.comment("l") + "\n")  # own-line comment between two let layers
            head.append(self.let_block())
        if nlets and cfg.get("in_body_comment") and rng.random() < 0.6:
            # own-line comment (or blank line) between `in` and the body: trivia that belongs to the body
            head.append(rng.choice([self.comment("b") + "\n", "\n"]))
        rec = cfg["rec"] and rng.random() < 0.3
        body = self.set_text(0, rec=rec)
        if paren:
            body = "(" + body + ")"
        if call and not paren_call and rng.random() < 0.25:
            # curried call: an earlier argument is a literal set too, the last one reaches the edited set through a
            # lambda or a nested call (`f { z = 0; } (x: { … })`): the edit belongs to the *last* argument's set
            call = call + rng.choice(["{ z = 0; } ", "{ } ", '{ z = 0; } "n" '])
            body = "(" + rng.choice(["x: ", "g ", "self: super: "]) + body + ")"
        if outer_head is not None:
            inner = "".join(head) + body
            inner = "\n".join(("  " + line if line else line) for line in inner.split("\n"))
            text = "".join(outer_head) + call + "(\n" + inner + "\n)"
        else:
            text = "".join(head) + call + body
        if cfg["footer"]:
            r = rng.random()
            if r < 0.5:
                text += "\n" + self.comment("end")
            else:
                text += " " + self.comment("end")
        if cfg["final_newline"]:
            text += "\n"
        return text


def perturb_whitespace(rng, text: str) -> str:
    """Non-canonical variant: change whitespace-only gaps between tokens.

    Gaps that contain a comment are left alone so comments stay line-level.
    """
    doc = reader.Doc(text)
    if doc.has_error():
        return text
    toks = doc.tokens()
    data = doc.data
    # formals stay on one line: this tree-sitter-nix rejects the trailing comma the library adds to
    # multi-line formals (`{\n  a,\n  b,\n}:`), which would make every later step "erroneous"
    formals = []
    stack = [doc.root]
    while stack:
        nd = stack.pop()
        if nd.type == "formals":
            formals.append((nd.start_byte, nd.end_byte))
        stack.extend(nd.children)
    out = bytearray()
    pos = 0
    in_string = 0
    for i, (t, s, e) in enumerate(toks):
        gap = data[pos:s]
        if i > 0 and gap.strip() == b"" and rng.random() < 0.25 and not in_string:
            prev = toks[i - 1][0]
            if gap == b"":
                choice = b""
            else:
                choice = rng.choice([b" ", b"  ", b"\n", b"\n\n", b"\t", b"\n    ", b" \n"])
            # never separate what must stay adjacent
            if prev in ("''", '"', "${") or t in ("''", '"'):
                choice = gap
            if b"\n" in choice and any(fs <= s <= fe for fs, fe in formals):
                choice = gap
            gap = choice
        out += gap
        out += data[s:e]
        if t in ('"', "''"):
            in_string ^= 1
        pos = e
    out += data[pos:]
    res = out.decode("utf-8")
    if reader.Doc(res).has_error() or reader.tokens_of_text(res) != tuple(x[0] for x in toks):
        return text
    return res


# ---------------------------------------------------------------------------
# operations
# ---------------------------------------------------------------------------


def paths_in(members, pre=()):
    """All (path, kind) pairs in a mutable/frozen member list."""
    out = []
    for m in members:
        if m[0] != "b":
            continue
        path = pre + tuple(m[1])
        v = m[2]
        if v[0] == "set":
            out.append((path, "set", len(m[1]) > 1))
            out.extend(paths_in(v[2], path))
        else:
            out.append((path, "ref" if reader.is_identifier_leaf(v) else "leaf", len(m[1]) > 1))
    return out


def npath(depth: int, segs) -> str:
    return "@" * depth + ".".join(fmt_name(s) for s in segs)


BAD_PATHS = ["", "a..b", ".a", "a.", '"open', "a.b$", "@", "@@", "a b", "-x", 'a"b"', "a.b c",
             "@a..b", "@.a", "@a.", '@"open', "@a.b$", "@@a..b", "@a b", '@a"b"', "@@.a", "@@@"]
BAD_VALUES = ["", "1 2", "{ a = ; }", "[ 1", "}", "1;", "# only a comment", "let x = 1; in", '"unterminated']


class OpGen:
    """Generates concrete operations by running the *model* forward."""

    def __init__(self, rng, cfg: dict, seed_tag: int):
        self.rng = rng
        self.cfg = cfg
        self.tag = seed_tag % 9000 + 1000
        self.n = 0
        self.removed: list = []  # (depth, path) of successful removals so far
        self.plan: list = []  # scripted follow-up operations (see _scenario)

    def fresh_value(self) -> str:
        if self.cfg.get("dup_values") and self.rng.random() < 0.7:
            return self.rng.choice(["true", "true", "1", '"x"'])
        self.n += 1
        if self.cfg.get("multiline_boost") and self.rng.random() < 0.3:
            b = self.tag * 1000 + self.n
            return self.rng.choice(["[\n  %d\n  %d\n]", "{\n  k = %d;\n  j = %d;\n}", "\"a%d\nb%d\""]) % (b, b + 1)
        base = self.tag * 1000 + self.n
        r = self.rng.random()
        if not self.cfg.get("rich_values") or r < 0.55:
            return str(base)
        if r < 0.75:
            return '"v%d"' % base
        if r < 0.85:
            return "[ %d %d ]" % (base, base + 1)
        if r < 0.92:
            return "{ k = %d; }" % base
        if r < 0.94:
            return "%d + 1" % base
        if r < 0.96 and self.cfg.get("commented_values"):
            return "%d # note%d" % (base, self.n)  # one expression followed by an end-of-line comment
        if r < 0.975:
            return '"w${toString %d}"' % base
        if r < 0.99:
            # multi-line values (canonical spelling at indent 0)
            # (the last one: a plain string literal with a raw line break inside)
            return self.rng.choice(["[\n  %d\n  %d\n]", "{\n  k = %d;\n  j = %d;\n}", "''\n  foo %d\n  bar %d\n''", "\"a%d\nb%d\""]) % (base, base + 1)
        return "./v%d" % base

    def _scenario(self, depth: int, existing) -> list:
        """Scripted three-step histories aimed at state a live object may keep between operations
        (name indexes, order caches, layer lists): read through A, restructure B, write below B again."""
        rng = self.rng
        sets = [p for p, k, ap in existing if k == "set" and not ap]
        leaves_of: dict = {}
        for p, k, ap in existing:
            if ap and len(p) > 1 and k != "set":
                leaves_of.setdefault(p[0], []).append(p)
        single = sorted(r for r, ls in leaves_of.items() if len(ls) == 1)
        families = sorted(r for r, ls in leaves_of.items() if len(ls) >= 2)
        plain = [p for p, k, ap in existing if k == "leaf" and len(p) == 1 and not ap]
        feasible = (["prune_root"] * 2 if single else []) + (["drop_set"] if sets else []) + ["leaf_cycle"] + (["family_then_sibling"] * 2 if families and plain else [])
        if single and plain:
            feasible += ["family_migrates"] * 2
        feasible += ["twin_values"] * 2
        if self.cfg.get("commented_values"):
            feasible += ["commented_leaf"] * 3
        kind = rng.choice(feasible)
        ops: list = []
        if kind == "commented_leaf":
            # a VALUE that ends in a comment goes to a leaf of an attrpath family (existing or made for the purpose) and
            # to a plain name: whatever set holds them must end its line behind the comment
            self.n += 1
            root = rng.choice(families + single) if (families or single) and rng.random() < 0.6 else "cm"
            ops.append({"op": "set", "path": npath(depth, (root, rng.choice(["nu", "x9"]))), "value": "%d # note%d" % (self.tag * 1000 + self.n, self.n)})
            if rng.random() < 0.5:
                self.n += 1
                existing_leaves = leaves_of.get(root) or []
                tgt = rng.choice(existing_leaves) if existing_leaves and rng.random() < 0.6 else (root, "mu")
                ops.append({"op": "set", "path": npath(depth, tgt), "value": "%d # note%d" % (self.tag * 1000 + self.n, self.n)})
            return ops
        if kind == "twin_values":
            # the same compound VALUE text goes to two places, then one of the two is edited from the inside: the other
            # (and whatever the process keeps of that text) must not follow
            a, b = rng.sample(["tw1", "tw2", "tw3"], 2)
            v = rng.choice(["{ }", "{ q = 1; }", "{\n  q = 1;\n}", "{ q = { r = 1; }; }"])
            ops.append({"op": "set", "path": npath(depth, (a,)), "value": v})
            ops.append({"op": "set", "path": npath(depth, (b,)), "value": v})
            inner = ("q", "r2") if v.startswith("{ q = {") and rng.random() < 0.5 else (rng.choice(["k", "nu"]),)
            ops.append({"op": "set", "path": npath(depth, (a,) + inner), "value": self.fresh_value()})
            if rng.random() < 0.5:
                ops.append({"op": "rm", "path": npath(depth, (b, "q"))} if "q" in v and rng.random() < 0.5 else {"op": "set", "path": npath(depth, (b, "zz")), "value": self.fresh_value()})
            return ops
        if kind == "family_migrates":
            # an attrpath family gets a new member (appended at the end), loses its original one, and then a plain
            # binding that stands between the two positions is removed
            root = rng.choice(single)
            ops.append({"op": "set", "path": npath(depth, (root, rng.choice(["nu", "mu", "x9"]))), "value": self.fresh_value()})
            ops.append({"op": "rm", "path": npath(depth, leaves_of[root][0])})
            ops.append({"op": "rm", "path": npath(depth, rng.choice(plain))})
            return ops
        if kind == "family_then_sibling":
            # change the membership of an attrpath family (the render-order list gains / loses an entry while the
            # list of values keeps its length), then remove a plain sibling, then touch the family again
            root = rng.choice(families)
            if rng.random() < 0.5:
                ops.append({"op": "rm", "path": npath(depth, rng.choice(leaves_of[root]))})
            else:
                ops.append({"op": "set", "path": npath(depth, (root, rng.choice(["nu", "mu", "x9"]))), "value": self.fresh_value()})
            ops.append({"op": "rm", "path": npath(depth, rng.choice(plain))})
            if rng.random() < 0.5:
                ops.append({"op": "set", "path": npath(depth, (root, rng.choice(["nu", "desc"]))), "value": self.fresh_value()})
            return ops
        if kind == "prune_root" and single:
            root = rng.choice(single)
            if sets:
                ops.append({"op": "set", "path": npath(depth, rng.choice(sets) + (rng.choice(FRESH),)), "value": self.fresh_value()})
            ops.append({"op": "rm", "path": npath(depth, leaves_of[root][0])})
            ops.append({"op": "set", "path": npath(depth, (root, rng.choice(["x", "nu", "desc"]))), "value": self.fresh_value()})
        elif kind == "drop_set" and sets:
            tgt = rng.choice(sets)
            ops.append({"op": "set", "path": npath(depth, tgt + (rng.choice(FRESH),)), "value": self.fresh_value()})
            ops.append({"op": "rm", "path": npath(depth, tgt)})
            ops.append({"op": "set", "path": npath(depth, tgt + (rng.choice(FRESH),)), "value": self.fresh_value()})
        else:
            leafs = [p for p, k, _ in existing if k == "leaf"]
            if leafs:
                tgt = rng.choice(leafs)
                ops.append({"op": "rm", "path": npath(depth, tgt)})
                ops.append({"op": "set", "path": npath(depth, tgt), "value": self.fresh_value()})
                ops.append({"op": "rm", "path": npath(depth, tgt)})
        return ops

    def pick(self, dm: model.DocModel, *, scoped_bias: float = 0.0, allow_fail: bool = True) -> dict:
        rng = self.rng
        if self.plan:
            return self.plan.pop(0)
        fail = allow_fail and rng.random() < self.cfg.get("fail_rate", 0.0)
        is_rm = rng.random() < 0.35
        depth = 0
        nl = len(dm.layers)
        if rng.random() < scoped_bias:
            depth = rng.choice([1, 1, 1, 2, 2, 3]) if nl else rng.choice([1, 1, 1, 2])
            if not fail and depth > nl and not (depth == 1 and nl == 0 and not is_rm):
                depth = rng.randint(1, nl) if nl else 1
                if nl == 0:
                    is_rm = False
        members = dm.target if depth == 0 or depth > nl else dm.layers[depth - 1]
        existing = paths_in(members)
        if fail:
            r = rng.random()
            if r < 0.25:
                p = rng.choice(BAD_PATHS)
                return {"op": "rm", "path": p} if is_rm else {"op": "set", "path": p, "value": self.fresh_value()}
            if r < 0.4 and not is_rm:
                segs = (rng.choice(NAMES),)
                return {"op": "set", "path": npath(depth, segs), "value": rng.choice(BAD_VALUES)}
            if r < 0.6:
                leafs = [p for p, k, _ in existing if k == "leaf"]
                if leafs:
                    segs = rng.choice(leafs) + (rng.choice(FRESH),)
                    if is_rm:
                        return {"op": "rm", "path": npath(depth, segs)}
                    return {"op": "set", "path": npath(depth, segs), "value": self.fresh_value()}
            if r < 0.68:
                return {"op": "rm", "path": npath(depth, (rng.choice(FRESH), ) + ((rng.choice(FRESH),) if rng.random() < 0.4 else ()))}
            if r < 0.75:
                # a missing key below an existing explicit set, named like the leaf of an attrpath binding
                sets = [p for p, k, ap in existing if k == "set" and not ap]
                if sets:
                    return {"op": "rm", "path": npath(depth, rng.choice(sets) + (rng.choice(["x", "y", "z", "t", "i", "j"]),))}
            if r < 0.85:
                roots = sorted({p[0] for p, _, ap in existing if ap and len(p) > 1})
                if roots:
                    root = rng.choice(roots)
                    if is_rm:
                        return {"op": "rm", "path": npath(depth, (root,))}
                    return {"op": "set", "path": npath(depth, (root,)), "value": self.fresh_value()}
            d = nl + rng.randint(1, 2) + (1 if nl == 0 and not is_rm else 0)
            segs = (rng.choice(LETNAMES),)
            if is_rm:
                return {"op": "rm", "path": npath(d, segs)}
            return {"op": "set", "path": npath(d, segs), "value": self.fresh_value()}
        # intended to succeed
        if self.cfg.get("scenarios") and rng.random() < 0.15 and depth <= nl:
            scripted = self._scenario(depth, existing)
            if scripted:
                self.plan = scripted[1:]
                return scripted[0]
        usable = [(p, k, ap) for p, k, ap in existing if k != "ref" or self.cfg.get("refs")]
        if is_rm:
            if usable:
                p, _, _ = rng.choice(usable)
                self.removed.append((depth, p))
                return {"op": "rm", "path": npath(depth, p)}
            is_rm = False
        if self.removed and rng.random() < 0.15:
            # write below the root of something removed earlier in this history (a pruned attrpath root, an
            # emptied parent): state the live object may have kept about it must not matter
            d0, p0 = rng.choice(self.removed)
            p = p0[:1] + (rng.choice(["x", "nu", "desc"]),)
            return {"op": "set", "path": npath(d0, p), "value": self.fresh_value()}
        r = rng.random()
        if usable and r < 0.4:
            cands = [p for p, k, _ in usable if k in ("leaf", "ref")] or [p for p, _, _ in usable]
            p = rng.choice(cands)
        elif usable and r < 0.6:
            sets = [p for p, k, _ in usable if k == "set"]
            if sets:
                p = rng.choice(sets) + (rng.choice(FRESH + NAMES[:3]),)
            else:
                p = (rng.choice(FRESH),)
        elif r < 0.75:
            roots = sorted({p[0] for p, _, ap in existing if ap and len(p) > 1})
            if roots:
                p = (rng.choice(roots),) + tuple(rng.choice(["x", "y", "nu", "mu", "i"]) for _ in range(rng.choice([1, 1, 2, 2, 3])))
            else:
                p = (rng.choice(FRESH),)
        elif r < 0.9:
            # fresh top-level names, some of them equal to segment names used inside attrpath bindings
            pool = FRESH + ["x", "y", "z", "t", "i"] + (QUOTED if self.cfg.get("quoted") else [])
            p = (rng.choice(pool),)
        else:
            p = tuple(rng.choice(FRESH) for _ in range(rng.randint(2, 3)))
        return {"op": "set", "path": npath(depth, p), "value": self.fresh_value()}
