"""Core of the simulator: seed derivation, case/result records, exit codes.

One integer decides everything: ``VERIF_SEED`` -> batch seed; run *i* of
property *P* uses ``seed_i = H(batch, P, i)``; inside a run every component
draws from its own named sub-stream so that adding a draw in one component
does not shift the others.  Nothing here reads a clock or ``os.urandom``.
"""

from __future__ import annotations

import hashlib
import json
import os
import random
import sys
from typing import Any

EXIT_OK = 0
EXIT_VIOLATION = 1
EXIT_HARNESS = 2

VERIF_ROOT = os.path.dirname(os.path.dirname(os.path.abspath(__file__)))
REPO_ROOT = os.environ.get("NIMASIM_REPO", "/repo")
DEFAULT_SEED = 20261003


def H(*parts: Any) -> int:
    """Stable 64-bit hash of the parts (independent of PYTHONHASHSEED)."""
    data = json.dumps(parts, sort_keys=True, default=str, ensure_ascii=True)
    return int.from_bytes(hashlib.sha256(data.encode()).digest()[:8], "big")


def digest(obj: Any) -> str:
    data = json.dumps(obj, sort_keys=True, default=str, ensure_ascii=True)
    return hashlib.sha256(data.encode()).hexdigest()[:16]


class Streams:
    """Named, independent PRNG sub-streams of one run seed."""

    def __init__(self, seed: int):
        self.seed = seed
        self._cache: dict[str, random.Random] = {}

    def __call__(self, name: str) -> random.Random:
        rng = self._cache.get(name)
        if rng is None:
            rng = random.Random(H(self.seed, name))
            self._cache[name] = rng
        return rng


def batch_seed() -> int:
    raw = os.environ.get("VERIF_SEED", "")
    try:
        return int(raw) if raw != "" else DEFAULT_SEED
    except ValueError:
        return H("seed", raw)


def run_seed(batch: int, prop: str, index: int) -> int:
    return H(batch, prop, index) % (1 << 53)


def jobs() -> int:
    raw = os.environ.get("VERIF_JOBS", "")
    try:
        n = int(raw) if raw else (os.cpu_count() or 4)
    except ValueError:
        n = os.cpu_count() or 4
    return max(1, min(n, 16))


class Violation:
    """One oracle firing inside one executed case."""

    __slots__ = ("oracle", "message", "step", "facts")

    def __init__(self, oracle: str, message: str, step: int | None = None, facts: dict | None = None):
        self.oracle = oracle
        self.message = message
        self.step = step
        self.facts = facts or {}

    def to_json(self) -> dict:
        return {"oracle": self.oracle, "message": self.message, "step": self.step, "facts": self.facts}

    @classmethod
    def from_json(cls, d: dict) -> "Violation":
        return cls(d["oracle"], d["message"], d.get("step"), d.get("facts") or {})

    def __repr__(self) -> str:
        return f"Violation({self.oracle!r}, step={self.step}, {self.message!r})"


class HarnessError(Exception):
    """The harness itself (not nix-manipulator) misbehaved."""


def assert_repo_import() -> str:
    """The package under test must be the one in /repo's working tree."""
    import nix_manipulator

    path = os.path.realpath(nix_manipulator.__file__)
    root = os.path.realpath(REPO_ROOT)
    if not path.startswith(root + os.sep):
        raise HarnessError(f"nix_manipulator imported from {path}, expected under {root}")
    return path


def ensure_hashseed() -> None:
    """Re-exec with PYTHONHASHSEED=0 unless already fixed (keeps runs comparable)."""
    if os.environ.get("PYTHONHASHSEED") is None:
        env = dict(os.environ)
        env["PYTHONHASHSEED"] = "0"
        os.execve(sys.executable, [sys.executable] + sys.argv, env)
