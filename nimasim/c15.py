"""C15: rebuilding is pure and deterministic, independent of threads and history.

Three kinds of case:
  schedule  2-4 caller threads with their own documents under the baton scheduler;
            oracle = the same programs executed serially
  purity    deep structural snapshot of the tree before/after every rebuild along
            an edit history; second rebuild returns the same text
  order     the same batch of items processed in two PRNG orders in one process
A fourth stage (configuration matrix: PYTHONHASHSEED x start cwd in fresh
interpreters) runs once per batch from ``post_batch``.
"""

from __future__ import annotations

import dataclasses
import json
import os
import shutil
import subprocess
import sys

from . import clisim, gen, reader, session
from .core import HarnessError, Streams, Violation, digest
from .model import DocModel
from .threads import Scheduler

# ---------------------------------------------------------------------------
# programs
# ---------------------------------------------------------------------------


def gen_job(st: Streams, rng, tier: str, seed: int, tnum: int, jnum: int) -> dict:
    r = rng.random()
    if r < 0.25:
        return {"kind": "file", "dir": "d%d" % tnum, "val": (seed % 9000 + 1000) * 100 + tnum * 10 + jnum}
    if r < 0.37:
        # a directly applied function whose body is read through the call (C10's applied workload): the lookup builds
        # a parameter scope from the formals and the supplied argument - state that belongs to this document alone
        from . import registry

        ap = registry.generate_applied(seed * 31 + tnum * 7 + jnum, tier)
        if not reader.Doc(ap["text"]).has_error():
            return {"kind": "text", "doc": ap["text"], "ops": [], "refs": False, "reads": [[p] for p in ap["probes"]]}
    if r < 0.6:
        # construct zoo: one construct per document with random gap shapes (also non-RFC);
        # a small tag range on purpose, so different documents share identical gap strings
        from . import zoo

        z = zoo.Zoo(st("zoo%d_%d" % (tnum, jnum)), (seed + tnum) % 7 + 1)
        text, facts = z.document()
        if not reader.Doc(text).has_error():
            return {"kind": "text", "doc": text, "ops": [], "refs": False, "zoo": facts["construct"]}
    cfg = gen.swarm(st("swarm%d_%d" % (tnum, jnum)), tier)
    cfg["max_members"] = min(cfg["max_members"], 4)
    cfg["max_depth"] = min(cfg["max_depth"], 1)
    cfg["fail_rate"] = 0.2
    doc = gen.DocGen(st("doc%d_%d" % (tnum, jnum)), cfg, docnum=(seed + tnum * 7 + jnum) % 1000).document()
    if doc.count("\n") > 40:
        doc = "let\n  v = %d;\nin\n{\n  # c\n  a = v;\n  b = [ 1 2 ]; # e\n}\n" % tnum
    dm = DocModel(reader.decode(doc))
    og = gen.OpGen(st("ops%d_%d" % (tnum, jnum)), cfg, seed + tnum)
    ops = []
    for _ in range(rng.randint(0, 3)):
        if not dm.editable:
            break
        op = og.pick(dm, scoped_bias=0.25)
        ops.append(op)
        if dm.apply(op)[0] == "unspecified":
            break
    job = {"kind": "text", "doc": doc, "ops": ops, "refs": rng.random() < 0.4}
    if job["refs"]:
        v = (seed % 9000 + 1000) * 100 + tnum * 10 + jnum
        if rng.random() < 0.5:
            job["doc"] = "let\n  v = %d;\n  w = v;\nin\nrec {\n  a = w;\n  b = a;\n  inherit v;\n  c = [ 1 2 ]; # e\n}\n" % v
        else:
            # three stacked let layers: the chain is assembled from the layer stack on every lookup
            job["doc"] = "let\n  v = %d;\nin\nlet\n  w = v;\nin\nlet\n  u = w;\nin\nrec {\n  a = u;\n  b = a;\n  inherit v;\n  c = [ 1 2 ]; # e\n}\n" % v
        job["ops"] = ops = [{"op": "set", "path": "n", "value": str(v + 1)}, {"op": "set", "path": "@u", "value": str(v + 2)}][: rng.randint(0, 2)]
    return job


def storm_job(seed: int, tnum: int, jnum: int) -> dict:
    v = (seed % 9000 + 1000) * 100 + tnum * 10 + jnum
    doc = "let\n  v = %d;\nin\nlet\n  w = v;\nin\nlet\n  u = w;\nin\nrec {\n  a = u;\n  b = a;\n  inherit v;\n  c = [ 1 2 ]; # e\n}\n" % v
    return {"kind": "text", "doc": doc, "ops": [], "refs": True, "repeat": 3}


def run_job(job: dict, root: str) -> list[str]:
    from nix_manipulator import parse, parse_file

    out: list[str] = []
    if job["kind"] == "file":
        path = os.path.join(root, job["dir"], "f.nix")
        src = parse_file(path)
        out.append(src.rebuild())
        out.append(str(src["p"].resolved_path()).replace(root, "@ROOT@"))
        got = src["nxt"]["val"]
        out.append(got.rebuild() if hasattr(got, "rebuild") else repr(got))
        return out
    src = parse(job["doc"])
    out.append(src.rebuild())
    if job.get("reads"):
        seen_vals = []
        for path in job["reads"]:
            try:
                cur = src
                for k in path:
                    cur = cur[k]
                cur = getattr(cur, "value", cur)
                seen_vals.append("/".join(path) + "=" + (cur.rebuild() if hasattr(cur, "rebuild") else repr(cur)))
            except Exception as e:  # noqa: BLE001
                seen_vals.append("/".join(path) + "=EXC:" + type(e).__name__)
        # (sorted: the order of the reads is not part of the answer)
        out.append("; ".join(sorted(seen_vals)))
    if job.get("refs"):
        for _rep in range(job.get("repeat", 1)):
            for key in ("a", "b", "v"):
                try:
                    out.append(src[key].value.rebuild())
                except Exception as e:  # noqa: BLE001
                    out.append("EXC:" + type(e).__name__)
    for op in job["ops"]:
        try:
            out.append(session.apply_op(src, op))
        except Exception as e:  # noqa: BLE001
            out.append("EXC:" + type(e).__name__)
    out.append(src.rebuild())
    out.append(src.rebuild())
    return out


def run_program(jobs: list[dict], root: str) -> list:
    return [run_job(j, root) for j in jobs]


def materialise(case: dict, root: str) -> None:
    for tnum, jobs in enumerate(case["programs"]):
        for j in jobs:
            if j["kind"] == "file":
                d = os.path.join(root, j["dir"])
                os.makedirs(d, exist_ok=True)
                with open(os.path.join(d, "f.nix"), "w") as fh:
                    fh.write("{\n  # c\n  p = ./x%d.nix;\n  nxt = import ./y.nix;\n  k = [ 1 2 ]; # e\n}\n" % tnum)
                with open(os.path.join(d, "y.nix"), "w") as fh:
                    fh.write("{ val = %d; }\n" % j["val"])


# ---------------------------------------------------------------------------
# snapshot (purity)
# ---------------------------------------------------------------------------


def snap(o, seen: dict):
    if isinstance(o, (str, int, float, bool, bytes, type(None))):
        return o
    i = id(o)
    if i in seen:
        return ("ref", seen[i])
    seen[i] = len(seen)
    tname = type(o).__name__
    if isinstance(o, (list, tuple)):
        extra = ()
        if tname == "Scope":
            extra = (("owner", snap(getattr(o, "owner", None), seen)),)
        return (tname, seen[i], tuple(snap(x, seen) for x in o)) + extra
    if isinstance(o, dict):
        return ("dict", seen[i], tuple((k, snap(v, seen)) for k, v in o.items()))
    if dataclasses.is_dataclass(o):
        return (tname, seen[i], tuple((f.name, snap(getattr(o, f.name), seen)) for f in dataclasses.fields(o)))
    if tname == "NixSourceCode":
        return ("src", tuple(snap(x, seen) for x in o.expressions), snap(o.trailing, seen), o.contains_error, str(o.source_path))
    if tname in ("PosixPath", "Path"):
        return str(o)
    if tname in ("EmptyLine", "Linebreak", "Comma") or not hasattr(o, "__dict__"):
        return tname
    return (tname, seen[i], tuple((k, snap(v, seen)) for k, v in sorted(vars(o).items())))


# ---------------------------------------------------------------------------
# case generation
# ---------------------------------------------------------------------------


def generate(seed: int, tier: str) -> dict:
    st = Streams(seed)
    rng = st("c15")
    r = rng.random()
    if r < 0.55:
        nthreads = rng.choice([2, 2, 3, 3, 4])
        programs = [[gen_job(st, rng, tier, seed, t, j) for j in range(rng.randint(1, 3))] for t in range(nthreads)]
        if rng.random() < 0.2:
            # resolver storm: every thread resolves references through three stacked let layers, several times, so
            # the scope-chain assembly of different documents interleaves densely
            programs = [[storm_job(seed, t, j) for j in range(rng.randint(1, 2))] for t in range(nthreads)]
        return {"prop": "C15", "engine": "threads", "kind": "schedule", "seed": seed, "tier": tier, "programs": programs,
                "switch_p": rng.choice([0.002, 0.005, 0.01, 0.02, 0.05, 0.1]), "gc_p": rng.choice([0.0, 0.0002, 0.001]), "schedule": None}
    if r < 0.8:
        from .props import gen_session_case

        c = gen_session_case("C15", seed, tier, scoped_bias=0.25, fail=True, multiline_boost=True)
        c["kind"] = "purity"
        c["engine"] = "session"
        return c
    if r < 0.93:
        # rebuild-insertion invariance: the same item operations with and without interleaved rebuild() calls
        from . import mapping

        c = mapping.generate(seed, tier)
        rr = st("rebuilds")
        ops = [o for o in c["ops"] if o["op"] != "restart"]
        # a value that changes its line span and back, preferably inside a one-line set
        dec = reader.decode(c["doc"])
        if not dec.error and dec.shape.editable and rr.random() < 0.7:
            data = dec.doc.data
            inline = []
            tgt = dec.shape.target
            if b"\n" not in data[tgt.start_byte:tgt.end_byte]:
                inline.append([])
            for m in dec.target:
                if m[0] == "b" and len(m[1]) == 1 and m[2][0] == "set" and mapping._bare(m[1][0]):
                    inline.append([m[1][0]])
            if inline:
                prefix = rr.choice(inline)
                key = rr.choice(["a", "b", "n"])
                tagv = seed % 9000 + 1000
                pair = [{"op": "set", "on": "doc" if not prefix else "nested", "keys": prefix + [key], "value": {"expr": "[\n  %d\n  %d\n]" % (tagv, tagv + 1)}},
                        {"op": "set", "on": "doc" if not prefix else "nested", "keys": prefix + [key], "value": tagv + 2}]
                pos = rr.randint(0, len(ops))
                ops = ops[:pos] + pair + ops[pos:]
        return {"prop": "C15", "engine": "mapping", "kind": "invariance", "seed": seed, "tier": tier, "doc": c["doc"],
                "ops": ops, "rebuild_after": [i for i in range(len(ops)) if rr.random() < 0.6]}
    jobs = [gen_job(st, rng, tier, seed, t, 0) for t in range(rng.randint(3, 6))]
    jobs = [j for j in jobs if j["kind"] == "text"] or [{"kind": "text", "doc": "{ a = 1; }\n", "ops": [], "refs": False}]
    order = list(range(len(jobs)))
    rng.shuffle(order)
    return {"prop": "C15", "engine": "threads", "kind": "order", "seed": seed, "tier": tier, "jobs": jobs, "order": order}


# ---------------------------------------------------------------------------
# execution
# ---------------------------------------------------------------------------


def package_prefix() -> str:
    import nix_manipulator

    return os.path.dirname(os.path.abspath(nix_manipulator.__file__))


def execute(case: dict):
    kind = case["kind"]
    if kind == "schedule":
        return execute_schedule(case)
    if kind == "purity":
        return execute_purity(case)
    if kind == "invariance":
        return execute_invariance(case)
    return execute_order(case)


def execute_invariance(case: dict):
    """rebuild() must be an observer: sprinkling it between item operations may not change any later result."""
    from . import mapping

    viols: list[Violation] = []
    stats: dict = {"invariance_items": 1, "ops": 0}

    def run(with_rebuilds: bool):
        world = mapping._World(case["doc"])
        outcomes = []
        for i, op in enumerate(case["ops"]):
            try:
                cont = world.container(op["on"], op["keys"])
                if op["op"] == "get":
                    got = cont[op["keys"][-1]]
                    outcomes.append("got:" + (got.rebuild() if hasattr(got, "rebuild") else repr(got)))
                elif op["op"] == "set":
                    cont[op["keys"][-1]] = mapping.to_python(op["value"])
                    outcomes.append("set")
                else:
                    del cont[op["keys"][-1]]
                    outcomes.append("del")
            except Exception as e:  # noqa: BLE001
                outcomes.append("EXC:" + type(e).__name__)
            if with_rebuilds and i in case["rebuild_after"]:
                try:
                    world.src.rebuild()
                except Exception as e:  # noqa: BLE001
                    outcomes.append("REBUILD-EXC:" + type(e).__name__)
        try:
            final = world.src.rebuild()
        except Exception as e:  # noqa: BLE001
            final = "EXC:" + type(e).__name__
        return outcomes, final

    try:
        a = run(False)
        b = run(True)
    except Exception as e:  # noqa: BLE001
        stats["skip:setup_failed"] = 1
        return viols, stats, []
    stats["ops"] = len(case["ops"])
    stats["interleaved_rebuilds"] = len(case["rebuild_after"])
    if a != b:
        what = "final text" if a[0] == b[0] else "an operation's outcome"
        viols.append(Violation("C15.rebuild_observable", "interleaving rebuild() calls between item operations changed %s: %r vs %r" % (what, a[1][-160:], b[1][-160:]), None,
                               {"kind": "invariance"}))
    return viols, stats, [digest([case["doc"], case["ops"], case["rebuild_after"]])]


def execute_schedule(case: dict):
    viols: list[Violation] = []
    stats: dict = {"schedules": 1}
    root = clisim.scratch_root()
    try:
        materialise(case, root)
        programs = case["programs"]
        serial = []
        for jobs in programs:
            try:
                serial.append(run_program(jobs, root))
            except Exception as e:  # noqa: BLE001
                serial.append("EXC:" + type(e).__name__)
        rng = Streams(case["seed"])("sched")
        probes: dict = {}
        sch = Scheduler(rng, prefix=package_prefix(), switch_p=case["switch_p"], gc_p=case["gc_p"], replay=case.get("schedule"), probes=probes)
        for t, jobs in enumerate(programs):
            sch.spawn("t%d" % t, (lambda jobs=jobs: run_program(jobs, root)))
        sch.run()
        stats["steps"] = sch.steps
        stats["switches"] = sch.switches
        stats["gc_events"] = sch.gcs
        stats["threads"] = len(programs)
        stats.update(probes)
        got = []
        for w in sch.workers:
            got.append(w.result if w.exc is None else "EXC:" + type(w.exc).__name__)
        facts = {"kind": "schedule", "threads": len(programs), "switches": sch.switches}
        for t, (a, b) in enumerate(zip(serial, got)):
            if a != b:
                detail = ""
                if isinstance(a, list) and isinstance(b, list):
                    for ja, jb in zip(a, b):
                        if ja != jb:
                            for x, y in zip(ja, jb):
                                if x != y:
                                    detail = "serial %r vs scheduled %r" % (x[-120:], y[-120:])
                                    break
                            break
                else:
                    detail = "serial %r vs scheduled %r" % (str(a)[:100], str(b)[:100])
                v = Violation("C15.schedule_dependent", "thread t%d computed a different result under interleaving (%d switches): %s" % (t, sch.switches, detail), None, facts)
                v.facts["schedule"] = [list(x) for x in sch.log]
                viols.append(v)
                break
        key = digest([sch.sites])
        return viols, stats, [key]
    finally:
        shutil.rmtree(root, ignore_errors=True)


def execute_purity(case: dict):
    from nix_manipulator import parse

    viols: list[Violation] = []
    stats: dict = {"purity_items": 0, "ops": 0}
    keys: list = []
    src = parse(case["doc"])

    def check(label, step):
        a = snap(src, {})
        r1 = src.rebuild()
        b = snap(src, {})
        r2 = src.rebuild()
        stats["purity_items"] += 1
        keys.append(digest([label, r1]))
        facts = {"kind": "purity", "after": label}
        if a != b:
            viols.append(Violation("C15.rebuild_mutates", "rebuild() changed the tree (%s)" % label, step, facts))
            return False
        if r1 != r2:
            viols.append(Violation("C15.rebuild_unstable", "second rebuild differs (%s): %r vs %r" % (label, r1[-100:], r2[-100:]), step, facts))
            return False
        return True

    if not check("parse", None):
        return viols, stats, keys
    for i, op in enumerate(case["ops"]):
        if op["op"] == "restart":
            src = parse(src.rebuild())
            continue
        stats["ops"] += 1
        try:
            session.apply_op(src, op)
            label = "ok:" + op["op"]
        except Exception as e:  # noqa: BLE001
            label = "exc:" + type(e).__name__
        if not check(label, i):
            break
    return viols, stats, keys


def execute_order(case: dict):
    viols: list[Violation] = []
    stats: dict = {"order_items": len(case["jobs"])}
    root = clisim.scratch_root()
    try:
        jobs = case["jobs"]
        first = {}
        for i, j in enumerate(jobs):
            try:
                first[i] = run_job(j, root)
            except Exception as e:  # noqa: BLE001
                first[i] = "EXC:" + type(e).__name__
        second = {}
        for i in case["order"]:
            try:
                j2 = jobs[i]
                if j2.get("reads"):
                    j2 = dict(j2, reads=list(reversed(j2["reads"])))
                second[i] = run_job(j2, root)
            except Exception as e:  # noqa: BLE001
                second[i] = "EXC:" + type(e).__name__
        for i in range(len(jobs)):
            if first[i] != second[i]:
                viols.append(Violation("C15.history_dependent", "item %d gives a different result after other documents were processed in another order" % i, None, {"kind": "order"}))
                break
        return viols, stats, [digest([case["order"], [j["doc"] for j in jobs]])]
    finally:
        shutil.rmtree(root, ignore_errors=True)


# ---------------------------------------------------------------------------
# configuration matrix (fresh interpreters)
# ---------------------------------------------------------------------------


def config_items(seed: int, n: int, tier: str) -> list[dict]:
    st = Streams(seed)
    rng = st("cfgitems")
    items = [j for j in (gen_job(st, rng, tier, seed, t, 1) for t in range(n)) if j["kind"] == "text"]
    # every construct of the zoo several times with a tiny tag range, so that documents of one construct share gap
    # strings, operands and comments: a process-wide memo keyed by such a string shows as an order dependence
    from . import zoo

    for k, kind in enumerate(zoo.Zoo.KINDS):
        if kind in ("merge", "inherit"):
            continue
        for rep in range(10):
            z = zoo.Zoo(st("cfgzoo%d_%d" % (k, rep)), (seed + rep) % 3 + 1)
            z.slots, z.extra = [], {}
            body = z.construct(kind, "    ")
            if kind in ("binop", "if", "apply", "let", "with", "assert", "lambda", "has_attr", "unary", "select", "formals"):
                body = "(" + body + ")"
            text = "{\n  pre = 1;\n  k = " + body + ";\n  post = 2;\n}\n"
            if not reader.Doc(text).has_error():
                items.append({"kind": "text", "doc": text, "ops": [], "refs": False, "zoo": kind})
    return items


def config_child(seed: int, n: int, tier: str, order: str = "forward") -> int:
    """Run in a fresh interpreter: print one digest per item (items processed in the given order)."""
    import random

    items = config_items(seed, n, tier)
    idx = list(range(len(items)))
    if order == "reverse":
        idx.reverse()
    elif order.startswith("shuffle"):
        random.Random(int(order[7:] or 0)).shuffle(idx)
    out: list = [None] * len(items)
    for i in idx:
        try:
            out[i] = digest(run_job(items[i], "/nonexistent"))
        except Exception as e:  # noqa: BLE001
            out[i] = "EXC:" + type(e).__name__
    print(json.dumps({"hashseed": os.environ.get("PYTHONHASHSEED"), "cwd": os.getcwd(), "order": order, "digests": out}))
    return 0


def config_matrix(seed: int, tier: str):
    """-> (violations, stats).  Same items under PYTHONHASHSEED x cwd; digests must agree."""
    from . import core

    n = 400 if tier == "quick" else 2500
    scratch = clisim.scratch_root()
    results = []
    try:
        configs = [(hs, cwd, "forward") for hs in ("0", "1", "4242") for cwd in ("/", scratch)]
        # prior work in the same process: the same items in other orders, each in a fresh interpreter
        configs += [("0", "/", "reverse"), ("0", "/", "shuffle1"), ("0", "/", "shuffle2")]
        for hs, cwd, order in configs:
            env = dict(os.environ)
            env["PYTHONHASHSEED"] = hs
            env["PYTHONPATH"] = core.VERIF_ROOT + (os.pathsep + os.environ["NIMASIM_REPO"] if os.environ.get("NIMASIM_REPO") else "")
            proc = subprocess.run([sys.executable, "-m", "nimasim", "c15-config", "--seed", str(seed), "--n", str(n), "--tier", tier, "--order", order],
                                  cwd=cwd, env=env, capture_output=True, text=True, timeout=1800)
            if proc.returncode != 0:
                raise HarnessError("config child failed (hashseed %s cwd %s order %s): %s" % (hs, cwd, order, proc.stderr[-400:]))
            line = proc.stdout.strip().splitlines()[-1]
            results.append(((hs, "/" if cwd == "/" else "scratch", order), json.loads(line)["digests"]))
    finally:
        shutil.rmtree(scratch, ignore_errors=True)
    viols = []
    base_cfg, base = results[0]
    for cfg, digs in results[1:]:
        for i, (a, b) in enumerate(zip(base, digs)):
            if a != b:
                viols.append(Violation("C15.config_dependent", "item %d differs between configuration %r and %r" % (i, base_cfg, cfg), None,
                                       {"kind": "config", "item": i, "configs": [list(base_cfg), list(cfg)], "seed": seed, "n": n}))
                break
        if viols:
            break
    return viols, {"config_runs": len(results), "config_items": len(base)}


class C15Property:
    # one execution of a schedule case costs about a second (line-level pre-emption): minimisation and the search
    # for a reproducing candidate get a small fixed number of re-executions
    shrink_budget = 40
    report_candidates = 2
    engine = "threads"
    rule = ("one evaluation = one of: a seeded pre-emption schedule of 2-4 caller threads (real threads, one runnable at a time, switch points at sys.settrace line events "
            "inside nix_manipulator), a purity history (deep snapshot around every rebuild), or an order-permutation batch; plus one configuration matrix "
            "(PYTHONHASHSEED in {0,1,4242} x cwd in {/, scratch}, fresh interpreters) per batch; distinct = distinct hash of the sequence of (thread, function) at switch points "
            "for schedules, distinct (history point, text) for purity")
    real = ["nix_manipulator (real), real threading.Thread objects, real per-thread tree-sitter parsers, real contextvars, real gc"]
    stubbed = ["the choice of which thread runs: exactly one thread holds the baton; pre-emption only at line events inside nix_manipulator (C code such as tree-sitter parsing is atomic)",
               "gc timing: automatic collection disabled, gc.collect() is a scheduled event"]
    assumptions = ["true parallelism inside tree-sitter's C code is outside the simulator", "sampling, not enumeration"]

    def __init__(self, quick_runs=4000, thorough_runs=60000):
        self.pid = "C15"
        self.runs = {"quick": quick_runs, "thorough": thorough_runs}

    def generate(self, seed, tier):
        return generate(seed, tier)

    def execute(self, case):
        if case.get("kind") == "config":
            v, s = config_matrix(case["seed"], case.get("tier", "quick"))
            return v, s, []
        return execute(case)

    def refine(self, case, violation):
        if case.get("kind") == "schedule" and violation.facts.get("schedule"):
            c = dict(case)
            c["schedule"] = violation.facts["schedule"]
            return c
        return case

    def post_batch(self, seed: int, tier: str):
        v, s = config_matrix(seed, tier)
        case = {"prop": "C15", "engine": "threads", "kind": "config", "seed": seed, "tier": tier}
        return v, s, case

    def shrink_candidates(self, case):
        kind = case.get("kind")
        if kind == "schedule":
            progs = case["programs"]
            if len(progs) > 2:
                for t in range(len(progs)):
                    c = dict(case)
                    c["programs"] = progs[:t] + progs[t + 1:]
                    c["schedule"] = None
                    yield c
            for t, jobs in enumerate(progs):
                if len(jobs) > 1:
                    for j in range(len(jobs)):
                        c = dict(case)
                        c["programs"] = progs[:t] + [jobs[:j] + jobs[j + 1:]] + progs[t + 1:]
                        c["schedule"] = None
                        yield c
            sched = case.get("schedule")
            if sched:
                n = len(sched)
                size = n // 2
                while size >= 1:
                    for start in range(1, n, size):
                        c = dict(case)
                        c["schedule"] = sched[:start] + sched[start + size:]
                        yield c
                    size //= 2
        elif kind == "invariance":
            ops = case["ops"]
            for i in range(len(ops)):
                c = dict(case)
                c["ops"] = ops[:i] + ops[i + 1:]
                c["rebuild_after"] = [k if k < i else k - 1 for k in case["rebuild_after"] if k != i]
                yield c
            for k in case["rebuild_after"]:
                c = dict(case)
                c["rebuild_after"] = [x for x in case["rebuild_after"] if x != k]
                yield c
        elif kind == "purity":
            ops = case["ops"]
            for i in range(len(ops)):
                c = dict(case)
                c["ops"] = ops[:i] + ops[i + 1:]
                yield c
            lines = case["doc"].split("\n")
            for i in range(len(lines)):
                doc = "\n".join(lines[:i] + lines[i + 1:])
                if doc.strip() and not reader.Doc(doc).has_error() and not reader.EMPTY_LET.search(doc):
                    c = dict(case)
                    c["doc"] = doc
                    yield c
