"""C19: edits compose predictably.  Each case is one law instance: two
alternative histories whose final texts must agree, run once on a live object
and once with a restart (re-parse of the emitted text) between operations.
"""

from __future__ import annotations

from . import gen, reader, session
from .core import Streams, Violation
from .model import DocModel


def _final(doc: str, ops: list[dict], mode: str):
    """-> (final text | None, error string | None).  mode: live / restart."""
    hist: list[dict] = []
    for k, op in enumerate(ops):
        if k and mode == "restart":
            hist.append({"op": "restart"})
        hist.append(op)
    steps = session.run_history(doc, hist, predict=False)
    text = doc
    for st in steps:
        if st.outcome != "ok":
            return None, "%s %s raised %s: %s" % (st.op["op"], st.op["path"], st.exc_class, st.exc_msg)
        text = st.out
    return text, None


def generate(seed: int, tier: str) -> dict:
    st = Streams(seed)
    if st("kind").random() < 0.12:
        # idempotence where the addressed attribute holds a *reference* (scoping programs of C10/C11): the second
        # application finds the definition already equal to VALUE and must leave everything as it is
        from . import scopegen

        rng = st("law")
        g = scopegen.ScopeGen(st("doc"), seed % 800 + 100, max_wrappers=rng.choice([0, 1, 2, 3]), cycles=False)
        prog = g.program()
        probe = rng.choice(prog["probes"])
        tag = (seed % 800 + 100) * 1000 + 950
        value = rng.choice([str(tag), '"v%d"' % tag, "[ %d ]" % tag, "{ k = %d; }" % tag, "[\n  %d\n  %d\n]" % (tag, tag + 1)])
        return {"prop": "C19", "engine": "laws", "seed": seed, "tier": tier, "doc": prog["text"], "law": "L1",
                "ops": [{"op": "set", "path": ".".join(probe), "value": value}], "reference_doc": True}
    if st("kind").random() < 0.08:
        # one-line holders and VALUEs that span lines or carry a comment: the holder switches to the multi-line layout
        # for the value and - on the same object - back when the value goes or is replaced by a one-line one
        rng = st("law")
        tag = (seed % 9000 + 1000) * 100
        holder = rng.choice(["{ a = %d; }\n", "{ a = %d; b = [ 1 2 ]; }\n", "f { a = %d; }\n", "with lib;\n{ c = %d; }\n", "{ lib }: { a = %d; }\n",
                             "let\n  v = 1;\nin\n{ a = %d; }\n", "rec { a = %d; }\n", "lib.mk { a = %d; } 2\n"]) % tag
        value = rng.choice(["[\n  %d\n  %d\n]", "{\n  k = %d;\n  j = %d;\n}", "''\n  foo %d\n  bar %d\n''", "\"a%d\nb%d\"", "f {\n  x = %d;\n  y = %d;\n}"]) % (tag + 1, tag + 2)
        law = rng.choice(["L1", "L2", "L2"])
        return {"prop": "C19", "engine": "laws", "seed": seed, "tier": tier, "doc": holder, "law": law,
                "ops": [{"op": "set", "path": rng.choice(["n", "zz", "a0"]), "value": value}], "inline_holder": True}
    cfg = gen.swarm(st("swarm"), tier, profile="scope" if st("swarm").random() < 0.4 else "edit")
    cfg["perturb"] = False
    cfg["trailing_blank"] = False  # the laws speak about canonically formatted documents
    # VALUEs that carry their own end-of-line comment (`2 # note`): part of "all values"
    cfg["commented_values"] = True
    # one case in four prefers VALUEs that span several lines (they switch a one-line set to the multi-line layout;
    # on a live object the switch must be undone with the value)
    cfg["multiline_boost"] = st("swarm").random() < 0.25
    from .props import MAX_DOC_LINES

    doc = gen.DocGen(st("doc"), cfg, docnum=seed % 1000).document()
    attempt = 0
    while doc.count("\n") > MAX_DOC_LINES:
        attempt += 1
        cfg["max_members"] = max(1, cfg["max_members"] - 1)
        cfg["max_depth"] = max(0, cfg["max_depth"] - 1)
        doc = gen.DocGen(Streams(seed)("doc%d" % attempt), cfg, docnum=seed % 1000).document()
    rng = st("law")
    dec = reader.decode(doc, with_ext=True)
    dm = DocModel(dec)
    og = gen.OpGen(st("ops"), cfg, seed)
    law = rng.choice(["L1", "L2", "L2", "L3", "L4"])
    case = {"prop": "C19", "engine": "laws", "seed": seed, "tier": tier, "doc": doc, "law": law, "ops": []}
    if not dm.editable:
        case["law"] = "none"
        return case
    nl = len(dm.layers)
    if law == "L1":
        op = og.pick(dm, scoped_bias=0.3, allow_fail=False)
        if op["op"] != "set":
            op = {"op": "set", "path": rng.choice(gen.FRESH), "value": og.fresh_value()}
        case["ops"] = [op]
    elif law == "L2":
        # fresh names, some equal to segment names used inside attrpath bindings (`meta.x = …;` vs a new `x`)
        name = rng.choice(gen.FRESH + ["x", "y", "z", "t", "i"])
        depth = 0
        if rng.random() < 0.5:
            depth = rng.randint(1, max(1, nl))
        case["ops"] = [{"op": "set", "path": gen.npath(depth, (name,)), "value": og.fresh_value()}]
    elif law == "L3":
        depth = rng.randint(0, nl) if rng.random() < 0.3 else 0
        members = dec.target if depth == 0 else dec.layers[depth - 1]
        cands = _leaf_paths_with_text(dec.doc.data, members)
        if not cands:
            case["law"] = "none"
            return case
        path, vtext = rng.choice(cands)
        case["ops"] = [{"op": "rm", "path": gen.npath(depth, path)}, {"op": "set", "path": gen.npath(depth, path), "value": vtext}]
    else:
        depth = rng.randint(0, nl) if rng.random() < 0.3 else 0
        members = dm.target if depth == 0 else dm.layers[depth - 1]
        leafs = [p for p, k, _ in gen.paths_in(members) if k == "leaf"]
        if len(leafs) < 2:
            case["law"] = "none"
            return case
        p1, p2 = rng.sample(leafs, 2)
        v1, v2 = og.fresh_value(), og.fresh_value()
        if rng.random() < 0.25:
            # one of the two values spans several lines: the layout switch of its set must not depend on the order
            base = (seed % 9000 + 1000) * 1000 + 77
            v2 = rng.choice(["[\n  %d\n  %d\n]", "{\n  k = %d;\n  j = %d;\n}"]) % (base, base + 1)
            if len(p1) > len(p2):
                p1, p2 = p2, p1  # the multi-line value goes to the deeper path
        case["ops"] = [
            {"op": "set", "path": gen.npath(depth, p1), "value": v1},
            {"op": "set", "path": gen.npath(depth, p2), "value": v2},
        ]
    return case


def _leaf_paths_with_text(data: bytes, members, pre=()):
    out = []
    for m in members:
        if m[0] != "b":
            continue
        path = pre + tuple(m[1])
        if m[2][0] == "set":
            out.extend(_leaf_paths_with_text(data, m[2][2], path))
        elif not reader.is_identifier_leaf(m[2]):
            s, e = m[3]["value"]
            text = data[s:e].decode()
            if "\n" not in text:
                out.append((path, text))
    return out


def _has_trailing_comment(dec) -> bool:
    """Does the target set (or a let layer) end in an own-line comment before its closing token?"""
    if not dec.shape.editable:
        return False
    for node in [dec.shape.target] + list(dec.shape.layers()):
        seq = []
        for c in node.children:
            if c.type in ("}", "in"):
                break
            if c.type == "binding_set":
                seq.extend(c.children)
            else:
                seq.append(c)
        if len(seq) >= 2 and seq[-1].type == "comment" and seq[-1].start_point[0] != seq[-2].end_point[0]:
            return True
    return False


def _attr_tree(text: str):
    dec = reader.decode(text)
    if dec.error or not dec.shape.editable:
        return None
    def rec_paths(members, pre=()):
        out = []
        for m in members:
            if m[0] == "b" and m[2][0] == "set":
                path = pre + tuple(m[1])
                if m[2][1]:
                    out.append(path)
                out.extend(rec_paths(m[2][2], path))
        return out

    def one(members):
        tree, dups = reader.flatten(members)
        # a doubly defined attribute is a different tree; so is a set that gained or lost its `rec`
        return (tuple(sorted((k, v) for k, v in tree.items())), tuple(sorted(dups)), tuple(sorted(rec_paths(members))))

    return (tuple(one(l) for l in dec.layers), one(dec.target), bool(dec.rec))


def execute(case: dict):
    law, doc, ops = case["law"], case["doc"], case["ops"]
    viols: list[Violation] = []
    stats = {"law:" + law: 1}
    keys = []
    if law == "none":
        return viols, stats, keys
    from .core import digest

    canonical = session._is_fixed_point(doc)
    dec0 = reader.decode(doc)
    base_facts = {"law": law, "wrappers": dec0.shape.kinds() if dec0.shape.editable else None,
                  "nlayers": len(dec0.layers), "scoped": ops[0]["path"].startswith("@"),
                  "footer": bool(dec0.doc.comments()) and dec0.doc.comments()[-1][1] > (dec0.shape.target.end_byte if dec0.shape.editable else 0),
                  "header": bool(dec0.doc.comments()) and dec0.doc.comments()[0][1] == 0}
    base_facts["trailing_comment"] = _has_trailing_comment(dec0)
    base_facts["multiline_value"] = any("\n" in (o.get("value") or "") for o in ops)
    base_facts["commented_value"] = any("#" in (o.get("value") or "") for o in ops)
    base_facts["inline_target"] = dec0.shape.editable and b"\n" not in dec0.doc.data[dec0.shape.target.start_byte:dec0.shape.target.end_byte]
    for mode in ("live", "restart"):
        f = dict(base_facts, mode=mode)
        keys.append(digest([law, mode, doc, ops]))
        if law == "L1":
            a, ea = _final(doc, ops, mode)
            b, eb = _final(doc, ops + ops, mode)
            if ea or eb:
                stats["skip:op_failed"] = stats.get("skip:op_failed", 0) + 1
                continue
            stats["checked:L1:" + mode] = 1
            if a != b:
                viols.append(Violation("C19.L1_not_idempotent", "applying %r twice differs from once (%s): %r vs %r" % (ops[0], mode, b[-160:], a[-160:]), None, f))
        elif law == "L2":
            p = ops[0]["path"]
            b, eb = _final(doc, ops + [{"op": "rm", "path": p}], mode)
            if eb:
                stats["skip:op_failed"] = stats.get("skip:op_failed", 0) + 1
                continue
            if not canonical:
                stats["skip:not_canonical"] = stats.get("skip:not_canonical", 0) + 1
                continue
            # the fresh name must really be fresh
            dm = DocModel(reader.decode(doc))
            pred = dm.apply(ops[0])
            if pred[0] != "ok" or pred[1] not in ("insert", "create_layer"):
                stats["skip:not_fresh"] = stats.get("skip:not_fresh", 0) + 1
                continue
            stats["checked:L2:" + mode] = 1
            if b != doc:
                f2 = dict(f)
                f2["tail_newline_only"] = b.rstrip("\n") == doc.rstrip("\n")
                viols.append(Violation("C19.L2_not_reversible", "set %s then rm does not restore the text (%s): %r vs original %r" % (p, mode, b[-200:], doc[-200:]), None, f2))
        elif law == "L3":
            dm3 = DocModel(reader.decode(doc))
            pred = dm3.apply(ops[0])
            # dm3.layers is the state after the rm: other layers remain -> `@name` would address one of them
            if pred[0] != "ok" or (pred[1] == "drop_layer" and len(dm3.layers) >= 1):
                # removing the last binding prunes the layer; a later `@name` then
                # addresses another layer by design, so the law does not apply
                stats["skip:rm_prunes_layer"] = stats.get("skip:rm_prunes_layer", 0) + 1
                continue
            if dm3.apply(ops[1])[0] != "ok":
                # e.g. the only layer was pruned and the body has an attribute of that name: `set @name`
                # then edits the body attribute (documented corner, pinned by a test), not a new layer
                stats["skip:set_after_rm_unspecified"] = stats.get("skip:set_after_rm_unspecified", 0) + 1
                continue
            b, eb = _final(doc, ops, mode)
            if eb:
                stats["skip:op_failed"] = stats.get("skip:op_failed", 0) + 1
                continue
            ta, tb = _attr_tree(doc), _attr_tree(b)
            stats["checked:L3:" + mode] = 1
            if ta is None or tb is None or ta != tb:
                viols.append(Violation("C19.L3_tree_not_restored", "rm then set of the removed value changes the attribute tree (%s): %r" % (mode, b[-200:]), None, f))
        elif law == "L4":
            a, ea = _final(doc, ops, mode)
            b, eb = _final(doc, [ops[1], ops[0]], mode)
            if ea or eb:
                stats["skip:op_failed"] = stats.get("skip:op_failed", 0) + 1
                continue
            stats["checked:L4:" + mode] = 1
            if a != b:
                viols.append(Violation("C19.L4_order_dependent", "two sets on different paths depend on their order (%s): %r vs %r" % (mode, a[-200:], b[-200:]), None, f))
    stats["ops"] = 2 * (len(ops) + 1)
    return viols, stats, keys


class LawsProperty:
    engine = "laws"
    rule = ("one evaluation = one law instance (L1 idempotence, L2 set-then-rm, L3 rm-then-set, L4 commutation) on a generated canonical document, "
            "each run as two alternative histories in live and restart mode; distinct = distinct (law, mode, document, operations)")

    def __init__(self, quick_runs=30000, thorough_runs=400000):
        self.pid = "C19"
        self.runs = {"quick": quick_runs, "thorough": thorough_runs}

    def generate(self, seed, tier):
        return generate(seed, tier)

    def execute(self, case):
        return execute(case)

    @staticmethod
    def _premise_holds(case, doc: str) -> bool:
        """A smaller document must still satisfy the law's premise: L3 / L4 speak about *existing* paths."""
        if case["law"] not in ("L3", "L4"):
            return True
        from .model import PathError, PathUnspecified, parse_npath

        dec = reader.decode(doc)
        if dec.error or not dec.shape.editable:
            return False
        ops = case["ops"][:1] if case["law"] == "L3" else case["ops"]
        for op in ops:
            try:
                depth, segs = parse_npath(op["path"])
            except (PathError, PathUnspecified):
                return False
            if depth > len(dec.layers):
                return False
            members = dec.target if depth == 0 else dec.layers[depth - 1]
            if not any(k == "leaf" and tuple(p) == tuple(segs) for p, k, _ in gen.paths_in(members)):
                return False
        return True

    def shrink_candidates(self, case):
        lines = case["doc"].split("\n")
        size = max(1, len(lines) // 2)
        while size >= 1:
            for start in range(0, len(lines), size):
                doc = "\n".join(lines[:start] + lines[start + size:])
                if doc != case["doc"] and doc.strip() and not reader.Doc(doc).has_error() and not reader.EMPTY_LET.search(doc) and self._premise_holds(case, doc):
                    c = dict(case)
                    c["doc"] = doc
                    yield c
            size //= 2
        for i, op in enumerate(case["ops"]):
            if op.get("value") not in (None, "7") and case["law"] != "L3":
                c = dict(case)
                c["ops"] = case["ops"][:i] + [dict(op, value="7")] + case["ops"][i + 1:]
                yield c
