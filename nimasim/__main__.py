"""Command line: setup | check | replay | selftest | explore."""

from __future__ import annotations

import argparse
import os
import sys


def _reexec_with_hashseed() -> None:
    if len(sys.argv) > 1 and sys.argv[1] == "c15-config":
        return  # the hash seed is the variable here
    if os.environ.get("PYTHONHASHSEED") is None:
        env = dict(os.environ)
        env["PYTHONHASHSEED"] = "0"
        os.execve(sys.executable, [sys.executable, "-m", "nimasim"] + sys.argv[1:], env)


def main(argv=None) -> int:
    alt = os.environ.get("NIMASIM_REPO")
    if alt:
        # sensitivity self-test: run against a mutated scratch copy of the package
        sys.path.insert(0, alt)
    ap = argparse.ArgumentParser(prog="nimasim")
    sub = ap.add_subparsers(dest="cmd", required=True)
    sub.add_parser("setup")
    pc = sub.add_parser("check")
    pc.add_argument("--property", required=True)
    pc.add_argument("--tier", default=os.environ.get("VERIF_TIER", "quick"), choices=["quick", "thorough"])
    pc.add_argument("--runs", type=int, default=None)
    pr = sub.add_parser("replay")
    pr.add_argument("path")
    ps = sub.add_parser("selftest")
    ps.add_argument("what", choices=["determinism", "sensitivity"])
    ps.add_argument("--properties", default="")
    ps.add_argument("--seeds", type=int, default=200)
    pk = sub.add_parser("c15-config")
    pk.add_argument("--seed", type=int, required=True)
    pk.add_argument("--n", type=int, required=True)
    pk.add_argument("--tier", default="quick")
    pk.add_argument("--order", default="forward")
    pw = sub.add_parser("witness")
    pw.add_argument("--only", default=None)
    pe = sub.add_parser("explore")
    pe.add_argument("--property", required=True)
    pe.add_argument("--tier", default="quick")
    pe.add_argument("--runs", type=int, default=500)
    pe.add_argument("--show", type=int, default=8)
    args = ap.parse_args(argv)

    from . import core

    if args.cmd == "setup":
        from . import selftest

        return selftest.setup()
    if args.cmd == "check":
        from . import runner

        try:
            return runner.check(args.property, args.tier, args.runs)
        except core.HarnessError as exc:
            print("ERROR harness %s" % exc)
            return core.EXIT_HARNESS
    if args.cmd == "replay":
        from . import runner

        return runner.replay_file(args.path)
    if args.cmd == "selftest":
        from . import selftest

        props = [p for p in args.properties.split(",") if p]
        if args.what == "determinism":
            return selftest.determinism(props, args.seeds)
        return selftest.sensitivity(props)
    if args.cmd == "c15-config":
        from . import c15

        return c15.config_child(args.seed, args.n, args.tier, args.order)
    if args.cmd == "witness":
        from . import runner

        return runner.make_witnesses(args.only)
    if args.cmd == "explore":
        from . import explore

        return explore.main(args.property, args.tier, args.runs, args.show)
    return 2


if __name__ == "__main__":
    _reexec_with_hashseed()
    sys.exit(main())
