"""C17: imports resolve relative to the importing file, whatever the cwd.

World = a real directory tree in a per-run scratch directory (real kernel file
system, real os.chdir).  Between any two calls (parse_file and each `[...]`
hop) the scheduler may change the working directory -- to another directory of
the layout, to `/`, or to a directory that is then removed.  Only *errors* are
injected, by patching pathlib.Path.read_text for chosen files.
"""

from __future__ import annotations

import errno
import os
import pathlib
import posixpath
import shutil

from . import clisim, reader
from .core import Streams, Violation, digest

DIRS = ["", "a", "a/b", "c", "c/d"]
BASENAMES = ["x.nix", "y.nix", "default.nix", "pkg.nix"]


def rel_spelling(rng, from_dir: str, to_path: str) -> str:
    """A relative Nix path literal from directory *from_dir* to file *to_path* (both layout-relative)."""
    rel = posixpath.relpath(to_path, from_dir or ".")
    if not rel.startswith("."):
        rel = "./" + rel
    r = rng.random()
    if r < 0.2:
        # detour through an existing sibling directory component
        head, tail = posixpath.split(rel)
        first = to_path.split("/")[0] if "/" in to_path else None
        if first and head in (".", "./" + first) and posixpath.dirname(to_path) == first and from_dir == "":
            rel = "./" + first + "/../" + first + "/" + tail
    return rel


def generate_twins(seed: int, tier: str) -> dict:
    """Two directories with byte-identical intermediate files whose relative imports differ in target."""
    st = Streams(seed)
    rng = st("twins")
    tag = (seed % 9000 + 1000) * 100
    dirs = rng.sample(["p", "q", "r", "p/s"], rng.randint(2, 3))
    mid = rng.choice(["default.nix", "pkg.nix"])
    leaf = rng.choice(["leaf.nix", "x.nix"])
    vals = {d: tag + i + 1 for i, d in enumerate(dirs)}
    missing = rng.choice(dirs) if rng.random() < 0.25 else None
    order = list(dirs)
    rng.shuffle(order)
    if rng.random() < 0.4:
        order.append(rng.choice(dirs))  # look one of them up again
    events = []
    for call in range(len(order) * 3 + 1):
        if rng.random() < 0.3:
            events.append({"before_call": call, "chdir": rng.choice(["", "/"] + dirs)})
    separate = None
    if rng.random() < 0.35:
        # several documents open side by side, each parsed from a relative path while the process stood somewhere
        # else: {dir: cwd at parse time}
        separate = {d: rng.choice(["", d] + dirs) for d in dirs}
    return {"prop": "C17", "engine": "fs", "seed": seed, "tier": tier, "twins": {"dirs": dirs, "mid": mid, "leaf": leaf, "vals": vals, "missing": missing, "order": order, "separate": separate},
            "events": events, "start_cwd": rng.choice(["", "/"]), "entry_form": rng.choice(["rel", "abs", "rel_dot"])}


def execute_twins(case: dict):
    from nix_manipulator import parse_file

    tw = case["twins"]
    viols: list[Violation] = []
    stats: dict = {"layouts": 1, "twin_layouts": 1, "hops": 2 * len(tw["order"])}
    root = clisim.scratch_root()
    old_cwd = os.getcwd()
    facts = {"fault": "missing" if tw["missing"] else None, "entry_form": case["entry_form"], "twins": True, "hops": 2, "events": ["chdir"] if case["events"] else []}
    try:
        for d in tw["dirs"]:
            os.makedirs(os.path.join(root, d), exist_ok=True)
            with open(os.path.join(root, d, tw["mid"]), "w") as fh:
                fh.write("{\n  nxt = import ./%s;\n}\n" % tw["leaf"])  # byte-identical in every directory
            if d != tw["missing"]:
                with open(os.path.join(root, d, tw["leaf"]), "w") as fh:
                    fh.write("{ val = %d; }\n" % tw["vals"][d])
        with open(os.path.join(root, "entry.nix"), "w") as fh:
            fh.write("{\n" + "".join("  k%d = import ./%s/%s;\n" % (i, d, tw["mid"]) for i, d in enumerate(tw["dirs"])) + "}\n")

        def run_events(idx):
            for e in case["events"]:
                if e["before_call"] == idx:
                    os.chdir(e["chdir"] if e["chdir"] == "/" else os.path.join(root, e["chdir"]))
                    stats["event:chdir"] = stats.get("event:chdir", 0) + 1

        os.chdir("/" if case["start_cwd"] == "/" else os.path.join(root, case["start_cwd"]))
        run_events(0)
        cwd_now = os.getcwd()
        c2 = dict(case, chain=["entry.nix"])
        spelled = entry_spelling(c2, root, cwd_now)
        src = parse_file(spelled)
        separate = tw.get("separate")
        docs = {}
        if separate:
            stats["separate_documents"] = len(separate)
            for d in tw["dirs"]:
                os.chdir(os.path.join(root, separate[d]))
                docs[d] = parse_file(os.path.relpath(os.path.join(root, d, tw["mid"]), os.getcwd()))
            os.chdir(cwd_now)
        call = 1
        for d in tw["order"]:
            key = "k%d" % tw["dirs"].index(d)
            try:
                run_events(call)
                cur = docs[d] if separate else src[key]
                run_events(call + 1)
                cur = cur["nxt"]
                run_events(call + 2)
                got = cur["val"]
                value = got.rebuild() if hasattr(got, "rebuild") else repr(got)
                outcome = "value"
            except Exception as e:  # noqa: BLE001
                outcome = type(e)
                value = str(e).replace(root, "@ROOT@")
            call += 3
            if d == tw["missing"]:
                stats["fault:missing"] = stats.get("fault:missing", 0) + 1
                if outcome == "value":
                    viols.append(Violation("C17.fault_resolved_elsewhere", "%s/%s is missing but the lookup through %s/%s answered %s" % (d, tw["leaf"], d, tw["mid"], value), None, facts))
                    break
                if not issubclass(outcome, OSError):
                    viols.append(Violation("C17.wrong_error", "missing %s/%s: raised %s (%s), expected an OS error" % (d, tw["leaf"], outcome.__name__, value), None, facts))
                    break
            else:
                if outcome != "value":
                    viols.append(Violation("C17.lookup_failed", "lookup through %s/%s failed with %s: %s" % (d, tw["mid"], outcome.__name__, value), None, facts))
                    break
                if value != str(tw["vals"][d]):
                    other = [x for x, v in tw["vals"].items() if str(v) == value]
                    viols.append(Violation("C17.wrong_file", "lookup through %s/%s answered %s (the value under %r), expected %d" % (d, tw["mid"], value, other, tw["vals"][d]), None, facts))
                    break
    finally:
        try:
            os.chdir(old_cwd)
        except OSError:
            os.chdir("/")
        shutil.rmtree(root, ignore_errors=True)
    return viols, stats, [digest([tw, case["events"], case["start_cwd"], case["entry_form"]])]


def generate_links(seed: int, tier: str) -> dict:
    """A directory reached through a symbolic link, `..` hops out of it, and `..` behind a directory that does not
    exist.  The reading checked is the one the statement words: "the file located relative to the directory of the
    file that contains the import" as the operating system locates it, and a path that does not exist is an OS error
    (a textual `a/../b` -> `b` collapse would read a decoy here, or succeed where the path does not exist)."""
    st = Streams(seed)
    rng = st("links")
    tag = (seed % 9000 + 1000) * 100
    deep = rng.choice(["real/deep/dir", "real/dir", "r/a/b/c"])
    events = []
    for call in range(8):
        if rng.random() < 0.3:
            events.append({"before_call": call, "chdir": rng.choice(["", "/", "real", deep])})
    return {"prop": "C17", "engine": "fs", "seed": seed, "tier": tier,
            "links": {"deep": deep, "link": rng.choice(["link", "l/ink"]), "target_abs": rng.random() < 0.4, "vals": {"up": tag + 1, "here": tag + 2, "decoy": tag + 3},
                      "entry": rng.choice(["entry", "via_link"]), "missing_dir": rng.choice(["nodir", "real/nodir"])},
            "events": events, "start_cwd": rng.choice(["", "/", "real"]), "entry_form": rng.choice(["rel", "abs", "rel_dot"])}


def execute_links(case: dict):
    from nix_manipulator import parse_file

    lk = case["links"]
    viols: list[Violation] = []
    stats: dict = {"layouts": 1, "link_layouts": 1}
    root = clisim.scratch_root()
    old_cwd = os.getcwd()
    facts = {"links": True, "entry": lk["entry"], "entry_form": case["entry_form"], "events": ["chdir"] if case["events"] else []}
    deep = lk["deep"]
    up_dir = posixpath.dirname(deep)
    try:
        os.makedirs(os.path.join(root, deep), exist_ok=True)
        os.makedirs(os.path.join(root, "real"), exist_ok=True)
        link_abs = os.path.join(root, lk["link"])
        os.makedirs(os.path.dirname(link_abs), exist_ok=True)
        os.symlink(os.path.join(root, deep) if lk["target_abs"] else os.path.relpath(os.path.join(root, deep), os.path.dirname(link_abs)), link_abs)
        with open(os.path.join(root, deep, "a.nix"), "w") as fh:
            fh.write("{\n  up = import ../x.nix;\n  here = import ./y.nix;\n}\n")
        with open(os.path.join(root, deep, "y.nix"), "w") as fh:
            fh.write("{ val = %d; }\n" % lk["vals"]["here"])
        with open(os.path.join(root, up_dir, "x.nix"), "w") as fh:
            fh.write("{ val = %d; }\n" % lk["vals"]["up"])
        # decoys where a textual collapse of `..` would look
        for d in {"", posixpath.dirname(lk["link"]), posixpath.dirname(lk["missing_dir"])}:
            os.makedirs(os.path.join(root, d), exist_ok=True)
            path = os.path.join(root, d, "x.nix")
            if not os.path.exists(path):
                with open(path, "w") as fh:
                    fh.write("{ val = %d; }\n" % lk["vals"]["decoy"])
        with open(os.path.join(root, "entry.nix"), "w") as fh:
            fh.write("{\n  k = import ./%s/a.nix;\n  n = import ./%s/../x.nix;\n}\n" % (lk["link"], lk["missing_dir"]))

        def run_events(idx):
            for e in case["events"]:
                if e["before_call"] == idx:
                    os.chdir(e["chdir"] if e["chdir"] == "/" else os.path.join(root, e["chdir"]))
                    stats["event:chdir"] = stats.get("event:chdir", 0) + 1

        os.chdir("/" if case["start_cwd"] == "/" else os.path.join(root, case["start_cwd"]))
        run_events(0)
        first = "entry.nix" if lk["entry"] == "entry" else lk["link"] + "/a.nix"
        src = parse_file(entry_spelling(dict(case, chain=[first]), root, os.getcwd()))
        call = 1
        lookups = [(["k", "up", "val"], lk["vals"]["up"]), (["k", "here", "val"], lk["vals"]["here"]), (["n", "val"], OSError)]
        if lk["entry"] == "via_link":
            lookups = [(["up", "val"], lk["vals"]["up"]), (["here", "val"], lk["vals"]["here"])]
        for path, want in lookups:
            try:
                cur = src
                for seg in path:
                    run_events(call)
                    call += 1
                    cur = cur[seg]
                value = cur.rebuild() if hasattr(cur, "rebuild") else repr(cur)
                outcome = "value"
            except Exception as e:  # noqa: BLE001
                outcome = type(e)
                value = str(e).replace(root, "@ROOT@")
            stats["hops"] = stats.get("hops", 0) + len(path) - 1
            what = ".".join(path)
            if want is OSError:
                stats["fault:missing_dir"] = stats.get("fault:missing_dir", 0) + 1
                if outcome == "value":
                    viols.append(Violation("C17.fault_resolved_elsewhere", "%s/../x.nix does not exist (no such directory) but the lookup answered %s" % (lk["missing_dir"], value), None, facts))
                    break
                if not issubclass(outcome, OSError):
                    viols.append(Violation("C17.wrong_error", "%s/../x.nix: raised %s (%s), expected an OS error" % (lk["missing_dir"], outcome.__name__, value), None, facts))
                    break
            elif outcome != "value":
                viols.append(Violation("C17.lookup_failed", "lookup %s through the linked directory failed with %s: %s" % (what, outcome.__name__, value), None, facts))
                break
            elif value != str(want):
                viols.append(Violation("C17.wrong_file", "lookup %s through the linked directory answered %s, expected %d (decoy is %d)" % (what, value, want, lk["vals"]["decoy"]), None, facts))
                break
    finally:
        try:
            os.chdir(old_cwd)
        except OSError:
            os.chdir("/")
        shutil.rmtree(root, ignore_errors=True)
    return viols, stats, [digest([lk, case["events"], case["start_cwd"], case["entry_form"]])]


def generate(seed: int, tier: str) -> dict:
    st = Streams(seed)
    kind_draw = st("kind").random()
    if kind_draw < 0.25:
        return generate_twins(seed, tier)
    if kind_draw < 0.35:
        return generate_links(seed, tier)
    rng = st("layout")
    ndirs = rng.randint(1, 4)
    dirs = [""] + rng.sample(DIRS[1:], ndirs - 1) if ndirs > 1 else [""]
    # parents must exist
    for d in list(dirs):
        while "/" in d:
            d = d.rsplit("/", 1)[0]
            if d not in dirs:
                dirs.append(d)
    nfiles = rng.randint(2, 6)
    files: dict[str, dict] = {}
    order: list[str] = []
    tag = (seed % 9000 + 1000) * 100
    while len(order) < nfiles:
        d = rng.choice(dirs)
        name = rng.choice(BASENAMES)
        path = (d + "/" if d else "") + name
        if path in files:
            if len(files) >= len(dirs) * len(BASENAMES):
                break
            continue
        tag += 1
        files[path] = {"val": tag, "imports": {}}
        order.append(path)
    # chain of hops
    hops = rng.randint(1, min(4, len(order) - 1)) if len(order) > 1 else 0
    chain = [order[0]]
    pool = order[1:]
    rng.shuffle(pool)
    chain.extend(pool[:hops])
    fault = None
    fr = rng.random()
    for i in range(len(chain) - 1):
        src, dst = chain[i], chain[i + 1]
        form = "rel"
        if rng.random() < 0.12:
            form = "abs"
        files[src]["imports"]["nxt"] = {"to": dst, "form": form, "spelling": rel_spelling(rng, posixpath.dirname(src), dst), "paren": rng.random() < 0.15,
                                        "bare": rng.random() < 0.35, "gap": st("gap").choice(IMPORT_GAPS)}
    # decoy imports so that a wrong base directory finds *some* file
    if fr < 0.3 and len(chain) > 1:
        k = rng.randrange(0, len(chain) - 1)
        kind = rng.choice(["missing", "directory", "read_error", "non_path_string", "non_path_call", "angle"])
        fault = {"hop": k, "kind": kind, "errno": rng.choice(["EACCES", "EIO"])}
    events = []
    ncalls = len(chain)  # parse_file + one per hop... (hops = len(chain)-1, final val lookup is part of last hop)
    for call in range(ncalls + 1):
        if rng.random() < 0.55:
            r = rng.random()
            if r < 0.6:
                events.append({"before_call": call, "chdir": rng.choice(dirs)})
            elif r < 0.8:
                events.append({"before_call": call, "chdir": "/"})
            else:
                events.append({"before_call": call, "chdir_removed": True})
    start_cwd = rng.choice(dirs + ["/"])
    entry_form = rng.choice(["rel", "rel", "rel_dot", "abs", "detour"])
    return {"prop": "C17", "engine": "fs", "seed": seed, "tier": tier, "dirs": dirs, "files": files, "chain": chain,
            "fault": fault, "events": events, "start_cwd": start_cwd, "entry_form": entry_form}


# what stands between `import` and its argument: trivia of any kind leaves the literal the same path of the same file
IMPORT_GAPS = [" "] * 6 + ["\n    ", " # pinned\n    ", "\n    # keep in sync\n    ", " /* c */ ", "\n    /* c */\n    ", "\n\n    # a\n    # b\n    "]


def file_text(case: dict, path: str, root: str) -> str:
    spec = case["files"][path]
    lines = ["{", "  val = %d;" % spec["val"]]
    fault = case.get("fault")
    hop_index = case["chain"].index(path) if path in case["chain"] else -1
    for key, imp in spec["imports"].items():
        lit = imp["spelling"] if imp["form"] == "rel" else posixpath.join(root, imp["to"])
        if imp["form"] == "rel" and imp.get("bare") and lit.startswith("./") and lit.count("/") >= 2 and "/../" not in lit:
            lit = lit[2:]  # `sub/x.nix`: a path literal needs a slash but not a leading `./`
        if fault and fault["hop"] == hop_index:
            if fault["kind"] == "non_path_string":
                lit = '"%s"' % imp["spelling"]
            elif fault["kind"] == "non_path_call":
                lit = "(f %s)" % imp["spelling"]
            elif fault["kind"] == "angle":
                lit = "<nixpkgs>"
            elif fault["kind"] == "missing":
                lit = posixpath.join(posixpath.dirname(lit), "gone-" + posixpath.basename(lit)) if "/" in lit else "./gone.nix"
            elif fault["kind"] == "directory":
                lit = posixpath.dirname(lit) or "./."
                if lit in (".", ".."):
                    lit = lit + "/."
                if not lit.startswith(("./", "../", "/")):
                    lit = "./" + lit  # a bare name would be an identifier, not a path literal
        if imp.get("paren") and not (fault and fault["hop"] == hop_index and fault["kind"].startswith("non_path")):
            lit = "(" + lit + ")"
        lines.append("  %s = import%s%s;" % (key, imp.get("gap", " "), lit))
    lines.append("}")
    return "\n".join(lines) + "\n"


def materialise(case: dict, root: str) -> None:
    for d in case["dirs"]:
        os.makedirs(os.path.join(root, d), exist_ok=True)
    for path in case["files"]:
        with open(os.path.join(root, path), "w") as fh:
            fh.write(file_text(case, path, root))


def entry_spelling(case: dict, root: str, cwd_abs: str) -> str:
    entry_abs = os.path.join(root, case["chain"][0])
    form = case["entry_form"]
    if form == "abs" or not cwd_abs.startswith(root):
        return entry_abs
    rel = os.path.relpath(entry_abs, cwd_abs)
    if form == "rel_dot":
        return "./" + rel
    if form == "detour":
        here = os.path.basename(cwd_abs.rstrip("/"))
        if cwd_abs.rstrip("/") != root.rstrip("/"):
            return "../" + here + "/" + rel
        return "./" + rel
    return rel


def execute(case: dict):
    from nix_manipulator import parse_file

    if case.get("twins"):
        return execute_twins(case)
    if case.get("links"):
        return execute_links(case)
    viols: list[Violation] = []
    stats: dict = {"layouts": 1, "hops": len(case["chain"]) - 1}
    keys = [digest([case["files"], case["chain"], case["events"], case["start_cwd"], case["entry_form"], case["fault"]])]
    root = clisim.scratch_root()
    old_cwd = os.getcwd()
    doomed = os.path.join(root, "doomed")
    orig_read_text = pathlib.Path.read_text
    orig_read_bytes = pathlib.Path.read_bytes
    fault = case.get("fault")
    chain = case["chain"]
    facts = {"fault": fault["kind"] if fault else None, "entry_form": case["entry_form"], "hops": len(chain) - 1,
             "events": sorted({("chdir_removed" if e.get("chdir_removed") else "chdir") for e in case["events"]})}
    try:
        materialise(case, root)

        def maybe_fail(self):
            if fault and fault["kind"] == "read_error":
                target = os.path.join(root, chain[fault["hop"] + 1])
                try:
                    same = os.path.abspath(str(self)) == target
                except OSError:
                    same = False
                if same:
                    stats["fault_fired:read_error"] = stats.get("fault_fired:read_error", 0) + 1
                    code = getattr(errno, fault["errno"])
                    raise OSError(code, os.strerror(code), str(self))

        # the seam is "reading a file through pathlib", whichever of the two calls the library uses
        def patched_read_text(self, *a, **kw):
            maybe_fail(self)
            return orig_read_text(self, *a, **kw)

        def patched_read_bytes(self, *a, **kw):
            maybe_fail(self)
            return orig_read_bytes(self, *a, **kw)

        pathlib.Path.read_text = patched_read_text
        pathlib.Path.read_bytes = patched_read_bytes

        def run_events(call_index: int) -> None:
            for e in case["events"]:
                if e["before_call"] != call_index:
                    continue
                if e.get("chdir_removed"):
                    os.makedirs(doomed, exist_ok=True)
                    os.chdir(doomed)
                    os.rmdir(doomed)
                    stats["event:chdir_removed"] = stats.get("event:chdir_removed", 0) + 1
                else:
                    target = e["chdir"] if e["chdir"] == "/" else os.path.join(root, e["chdir"])
                    os.chdir(target)
                    stats["event:chdir"] = stats.get("event:chdir", 0) + 1
                    if call_index > 0:
                        stats["probe:chdir_between_calls"] = stats.get("probe:chdir_between_calls", 0) + 1

        start = "/" if case["start_cwd"] == "/" else os.path.join(root, case["start_cwd"])
        os.chdir(start)
        # events scheduled before parse_file change the cwd the entry is spelled against
        run_events(0)
        try:
            cwd_now = os.getcwd()
        except OSError:
            cwd_now = "/"
            os.chdir("/")
        spelled = entry_spelling(case, root, cwd_now)
        facts["entry_relative"] = not os.path.isabs(spelled)
        if facts["entry_relative"]:
            stats["probe:relative_entry"] = 1
        outcome = None
        value = None
        try:
            cur = parse_file(spelled)
            for i in range(1, len(chain)):
                run_events(i)
                cur = cur["nxt"]
            run_events(len(chain))
            got = cur["val"]
            value = got.rebuild() if hasattr(got, "rebuild") else repr(got)
            outcome = "value"
        except Exception as e:  # noqa: BLE001
            outcome = type(e)
            msg = str(e).replace(root, "@ROOT@")
        # ---- oracle: purely lexical expectation
        if fault is None:
            want = str(case["files"][chain[-1]]["val"])
            if outcome != "value":
                viols.append(Violation("C17.lookup_failed", "import chain %r failed with %s: %s" % (chain, outcome.__name__, msg), None, facts))
            elif value != want:
                origin = [p for p, s in case["files"].items() if str(s["val"]) == value]
                viols.append(Violation("C17.wrong_file", "import chain %r answered %s (value of %r), expected %s" % (chain, value, origin, want), None, facts))
        else:
            kind = fault["kind"]
            stats["fault:" + kind] = 1
            if outcome == "value":
                origin = [p for p, s in case["files"].items() if str(s["val"]) == value]
                viols.append(Violation("C17.fault_resolved_elsewhere", "hop %d is %s but the lookup answered %s (value of %r)" % (fault["hop"], kind, value, origin), None, facts))
            else:
                want_cls = {"non_path_string": TypeError, "non_path_call": TypeError, "angle": ValueError}.get(kind, OSError)
                if not issubclass(outcome, want_cls):
                    viols.append(Violation("C17.wrong_error", "hop %d is %s: raised %s (%s), expected %s" % (fault["hop"], kind, outcome.__name__, msg, want_cls.__name__), None, facts))
    finally:
        pathlib.Path.read_text = orig_read_text
        pathlib.Path.read_bytes = orig_read_bytes
        try:
            os.chdir(old_cwd)
        except OSError:
            os.chdir("/")
        shutil.rmtree(root, ignore_errors=True)
    return viols, stats, keys


class FsProperty:
    engine = "fs"
    rule = ("one evaluation = one directory layout (2-6 files, 1-5 directories, same basenames with different planted values) x import chain (1-4 hops) x entry spelling x "
            "cwd events between calls x optional fault; distinct = distinct (layout, chain, events, start cwd, spelling, fault)")
    real = ["nix_manipulator parse_file / Import / NixPath (real)", "kernel file system on tmpfs, os.chdir, rmdir of the cwd (real)"]
    stubbed = ["I/O errors: pathlib.Path.read_text / read_bytes patched to raise EACCES/EIO for one chosen file"]

    def __init__(self, quick_runs=20000, thorough_runs=300000):
        self.pid = "C17"
        self.runs = {"quick": quick_runs, "thorough": thorough_runs}

    def generate(self, seed, tier):
        return generate(seed, tier)

    def execute(self, case):
        return execute(case)

    def shrink_candidates(self, case):
        ev = case["events"]
        if case.get("twins") or case.get("links"):
            for i in range(len(ev)):
                c = dict(case)
                c["events"] = ev[:i] + ev[i + 1:]
                yield c
            return
        for i in range(len(ev)):
            c = dict(case)
            c["events"] = ev[:i] + ev[i + 1:]
            yield c
        if case["entry_form"] != "abs":
            c = dict(case)
            c["entry_form"] = "abs"
            yield c
        if case["start_cwd"] != "":
            c = dict(case)
            c["start_cwd"] = ""
            yield c
        # drop files that are not on the chain
        for p in list(case["files"]):
            if p not in case["chain"]:
                c = dict(case)
                c["files"] = {k: v for k, v in case["files"].items() if k != p}
                yield c
