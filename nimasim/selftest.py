"""setup, determinism self-test and sensitivity self-test.

* determinism: every engine, N seeds, each case generated and executed twice in
  this process and once more in a fresh interpreter under another
  PYTHONHASHSEED; full result digests must be identical.
* sensitivity: small source mutations (each passes the repository's test
  suite) applied to a scratch copy of the package outside /repo and /verif; the
  owning property's quick check must report a violation.
"""

from __future__ import annotations

import json
import os
import shutil
import subprocess
import sys
import tempfile

from . import core

# (name, property, file under nix_manipulator/, old text, new text)
MUTANTS = [
    ("setitem_insert_first", "C05", "expressions/set.py",
     "        self.values.append(new_binding)\n        if self.attrpath_order:\n            self.attrpath_order.append(new_binding)",
     "        self.values.insert(0, new_binding)\n        if self.attrpath_order:\n            self.attrpath_order.insert(0, new_binding)"),
    ("setitem_insert_first_c04", "C04", "expressions/set.py",
     "        self.values.append(new_binding)\n        if self.attrpath_order:\n            self.attrpath_order.append(new_binding)",
     "        self.values.insert(0, new_binding)\n        if self.attrpath_order:\n            self.attrpath_order.insert(0, new_binding)"),
    ("reconcile_disabled", "C14", "expressions/set.py",
     "    if not order:\n        return values\n\n    # Keyed by object",
     "    if True:\n        return order if order else values\n\n    # Keyed by object"),
    ("attrpath_prune_missing", "C05", "cli/manipulations.py",
     "        if isinstance(binding.value, AttributeSet) and not binding.value.values:\n            _remove_by_identity(parent_set.values, binding)\n        else:\n            break",
     "        break"),
    ("layer_index_off", "C09", "cli/manipulations.py",
     "        target_layer = layers[-depth]\n        attrset = AttributeSet(",
     "        target_layer = layers[depth - 1]\n        attrset = AttributeSet("),
    ("attrpath_root_overwrite_silent", "C08", "cli/manipulations.py",
     "            raise ValueError(f\"Cannot overwrite attrpath-derived binding: {key}\")\n        binding = _find_binding(target_set, key)",
     "            target_set[key] = value_expr\n            return\n        binding = _find_binding(target_set, key)"),
    ("missing_key_wrong_class", "C08", "cli/manipulations.py",
     "        binding = _find_binding(target_set, key)\n        if binding is None:\n            raise KeyError(key)\n        del target_set[key]\n        return source.rebuild()",
     "        binding = _find_binding(target_set, key)\n        if binding is None:\n            raise RuntimeError(key)\n        del target_set[key]\n        return source.rebuild()"),
    ("scoped_rm_writes_before_check", "C08", "cli/manipulations.py",
     "        _remove_value_in_attrset(attrset, scope_npath)\n\n        removed_layer: ScopeLayer | None = None",
     "        source.trailing = []\n        _remove_value_in_attrset(attrset, scope_npath)\n\n        removed_layer: ScopeLayer | None = None"),
    ("source_bytes_global", "C15", "expressions/trivia.py",
     "    token = _SOURCE_BYTES.set(source_bytes)\n    try:\n        yield\n    finally:\n        _SOURCE_BYTES.reset(token)",
     "    global _SB\n    prev = _SB\n    _SB = source_bytes\n    try:\n        yield\n    finally:\n        _SB = prev",
     [("_SOURCE_BYTES.get()", "_SB"), ("\n\n\n@contextmanager\ndef source_bytes_context", "\n_SB = None\n\n\n@contextmanager\ndef source_bytes_context")]),
    ("source_path_global", "C15", "expressions/path.py",
     "    token = _SOURCE_PATH.set(path)\n    try:\n        yield\n    finally:\n        _SOURCE_PATH.reset(token)",
     "    global _SP\n    prev = _SP\n    _SP = path\n    try:\n        yield\n    finally:\n        _SP = prev",
     [("_SOURCE_PATH.get()", "_SP"), ("\n\n\n@contextmanager\ndef source_path_context", "\n_SP = None\n\n\n@contextmanager\ndef source_path_context")]),
    ("cli_always_newline", "C16", "cli/main.py",
     "    payload = text if text.endswith(\"\\n\") else text + \"\\n\"",
     "    payload = text + \"\\n\""),
    ("cli_exit0_on_error", "C16", "cli/main.py",
     "        case \"rm\":\n            source = parse(_read_input(args.file))\n            _emit(\n                remove_value(\n                    source=source,\n                    npath=args.npath,\n                )\n            )\n            return 0",
     "        case \"rm\":\n            source = parse(_read_input(args.file))\n            try:\n                _emit(remove_value(source=source, npath=args.npath))\n            except KeyError as exc:\n                print(exc, file=sys.stderr)\n            return 0"),
    ("resolved_path_uses_cwd", "C17", "expressions/path.py",
     "            resolved = self.source_path.parent / resolved",
     "            resolved = Path.cwd() / resolved"),
    ("raw_passthrough_strips", "C07", "expressions/source_code.py",
     "            elif isinstance(source_code, str):\n                raw_text = source_code",
     "            elif isinstance(source_code, str):\n                raw_text = source_code.strip()"),
    ("value_check_weak", "C07", "cli/manipulations.py",
     "    if len(parsed_value.expressions) != 1 or isinstance(\n        parsed_value.expressions[0], RawExpression\n    ):",
     "    if len(parsed_value.expressions) < 1:"),
    ("let_after_no_separator", "C06", "expressions/let.py",
     "        return apply_trailing_trivia(\n            f\"{before_str}\"\n            + let_line\n            + f\"\\n{bindings_str}{binding_suffix}\"\n            + \" \" * indent\n            + \"in\\n\"\n            + body_str,\n            self.after,\n            indent=indent,\n        )",
     "        return (\n            f\"{before_str}\"\n            + let_line\n            + f\"\\n{bindings_str}{binding_suffix}\"\n            + \" \" * indent\n            + \"in\\n\"\n            + body_str\n            + format_trivia(self.after, indent=indent)\n        )"),
    ("mapping_delitem_values_only", "C14", "expressions/scope.py",
     "            binding = super().__getitem__(index)\n            super().__delitem__(index)\n            attrpath_order = self._attrpath_order()",
     "            binding = super().__getitem__(index)\n            attrpath_order = self._attrpath_order()"),
    ("formal_scope_ignored", "C10", "expressions/identifier.py",
     "        if identifier.name in scope.parameters:\n            raise _unbound(",
     "        if False and identifier.name in scope.parameters:\n            raise _unbound("),
    ("with_not_weak", "C10", "resolution.py",
     "            weak_scope.weak = True",
     "            weak_scope.weak = False"),
    ("with_not_weak_c11", "C11", "resolution.py",
     "            weak_scope.weak = True",
     "            weak_scope.weak = False"),
    ("replace_moves_binding_last", "C19", "cli/manipulations.py",
     "            binding.value = value_expr\n            return\n        target_set[key] = value_expr",
     "            binding.value = value_expr\n            if binding in target_set.attrpath_order:\n                target_set.attrpath_order.remove(binding)\n                target_set.attrpath_order.append(binding)\n            return\n        target_set[key] = value_expr"),
]
for _m in MUTANTS:
    assert len(_m) in (5, 6)


def _scratch_copy() -> str:
    base = "/dev/shm" if os.path.isdir("/dev/shm") and os.access("/dev/shm", os.W_OK) else tempfile.gettempdir()
    d = tempfile.mkdtemp(prefix="nimasim-mut-", dir=base)
    shutil.copytree(os.path.join(core.REPO_ROOT, "nix_manipulator"), os.path.join(d, "nix_manipulator"),
                    ignore=shutil.ignore_patterns("__pycache__"))
    return d


def setup() -> int:
    import tree_sitter  # noqa: F401
    import tree_sitter_nix  # noqa: F401

    path = core.assert_repo_import()
    for d in ("evidence", "replays"):
        os.makedirs(os.path.join(core.VERIF_ROOT, d), exist_ok=True)
    print("nix_manipulator imported from", path)
    rc = determinism([], 6)
    return rc


def _digests(pids, seeds: int, tier="quick"):
    from .props import PROPERTIES

    out = {}
    batch = core.batch_seed()
    for pid in pids:
        prop = PROPERTIES[pid]
        ds = []
        for idx in range(seeds):
            seed = core.run_seed(batch, pid + ":selftest", idx)
            case = prop.generate(seed, tier)
            viols, stats, keys = prop.execute(case)
            from .runner import _stable

            ds.append(core.digest([case, [v.to_json() for v in viols], _stable(stats), keys]))
        out[pid] = ds
    return out


def determinism(pids, seeds: int) -> int:
    from .props import PROPERTIES

    core.assert_repo_import()
    pids = pids or sorted(PROPERTIES)
    first = _digests(pids, seeds)
    second = _digests(pids, seeds)
    bad = 0
    for pid in pids:
        diff = [i for i, (a, b) in enumerate(zip(first[pid], second[pid])) if a != b]
        if diff:
            bad += 1
            print("NONDETERMINISTIC in-process: %s seeds %r" % (pid, diff[:5]))
    env = dict(os.environ)
    env["PYTHONHASHSEED"] = "12345"
    proc = subprocess.run([sys.executable, "-c",
                           "import json,sys; sys.path.insert(0, %r)\n" % core.VERIF_ROOT +
                           ("sys.path.insert(0, %r)\n" % os.environ["NIMASIM_REPO"] if os.environ.get("NIMASIM_REPO") else "") +
                           "from nimasim import selftest\nprint(json.dumps(selftest._digests(%r, %d)))" % (pids, seeds)],
                          cwd="/", env=env, capture_output=True, text=True, timeout=3600)
    if proc.returncode != 0:
        print("ERROR harness fresh-interpreter run failed:", proc.stderr[-600:])
        return core.EXIT_HARNESS
    third = json.loads(proc.stdout.strip().splitlines()[-1])
    for pid in pids:
        diff = [i for i, (a, b) in enumerate(zip(first[pid], third[pid])) if a != b]
        if diff:
            bad += 1
            print("NONDETERMINISTIC across interpreters/hash seeds: %s seeds %r" % (pid, diff[:5]))
    print("determinism: %d properties x %d seeds x 3 executions (2 in-process, 1 fresh interpreter with PYTHONHASHSEED=12345, cwd=/): %s"
          % (len(pids), seeds, "OK" if not bad else "%d MISMATCHES" % bad))
    return core.EXIT_OK if not bad else core.EXIT_HARNESS


def sensitivity(pids) -> int:
    missed = []
    caught = []
    for mut in MUTANTS:
        name, pid, rel, old, new = mut[:5]
        extra = mut[5] if len(mut) > 5 else []
        if pids and pid not in pids:
            continue
        d = _scratch_copy()
        try:
            path = os.path.join(d, "nix_manipulator", rel)
            with open(path) as fh:
                src = fh.read()
            if old not in src:
                print("mutant %s: anchor text not found in %s (tree changed?)" % (name, rel))
                missed.append(name + " (not applicable)")
                continue
            src = src.replace(old, new, 1)
            for eo, en in extra:
                src = src.replace(eo, en)
            with open(path, "w") as fh:
                fh.write(src)
            env = dict(os.environ)
            env["NIMASIM_REPO"] = d
            env["PYTHONHASHSEED"] = "0"
            env["NIMASIM_REPLAY_DIR"] = os.path.join(d, "replays")
            env["NIMASIM_EVIDENCE_DIR"] = os.path.join(d, "evidence")
            proc = subprocess.run([sys.executable, "-m", "nimasim", "check", "--property", pid, "--tier", "quick"],
                                  cwd=core.VERIF_ROOT, env=env, capture_output=True, text=True, timeout=3600)
            hit = proc.returncode == core.EXIT_VIOLATION and "VIOLATION property=%s" % pid in proc.stdout
            line = next((l for l in proc.stdout.splitlines() if l.startswith("  oracle=")), "")
            print("mutant %-32s %s -> %s %s" % (name, pid, "CAUGHT" if hit else "MISSED (exit %d)" % proc.returncode, line.strip()[:120]))
            (caught if hit else missed).append(name)
            if not hit:
                print(proc.stdout[-800:])
                print(proc.stderr[-400:])
        finally:
            shutil.rmtree(d, ignore_errors=True)
    print("sensitivity: %d caught, %d missed %r" % (len(caught), len(missed), missed))
    return core.EXIT_OK if not missed else core.EXIT_HARNESS
