"""Generator of scoping programs for C10 / C11.

Programs nest let layers, rec / plain sets, with environments, inherit clauses
and lambda heads in any order around one editable target set whose *probe*
attributes (x1, x2, x3, m.y, m.z) hold bare names.  Every literal is an integer
tagged with the document number (doc * 1000 + k), so a value read back is
attributable to one binding of one document.
"""

from __future__ import annotations

NAMES = ["n1", "n2", "n3"]


class ScopeGen:
    def __init__(self, rng, docnum: int, *, max_wrappers: int = 4, allow_lambda=True, allow_call=True, allow_with=True, cycles=True):
        self.rng = rng
        self.doc = docnum
        self.k = 0
        self.max_wrappers = max_wrappers
        self.allow_lambda = allow_lambda
        self.allow_call = allow_call
        self.allow_with = allow_with
        self.cycles = cycles
        self.helpers: list[tuple[str, str]] = []  # (helper set name, name its member `r` refers to)

    def lit(self) -> str:
        self.k += 1
        return str(self.doc * 1000 + self.k)

    def binder_lines(self, ind: str, *, in_set: bool) -> list[str]:
        """Bindings for a random subset of the names, in one scope."""
        rng = self.rng
        lines: list[str] = []
        helper_needed = False
        names = [n for n in NAMES if rng.random() < 0.55]
        rng.shuffle(names)
        for n in names:
            r = rng.random()
            if r < 0.5:
                lines.append("%s%s = %s;" % (ind, n, self.lit()))
            elif r < 0.7:
                other = rng.choice([x for x in NAMES if x != n])
                lines.append("%s%s = %s;" % (ind, n, other))
            elif r < 0.8:
                lines.append("%sinherit %s;" % (ind, n))
            elif r < 0.92:
                helper_needed = True
                hname = "s%d" % (self.k + 1)
                quoted = ""
                if rng.random() < 0.3:
                    # a quoted name listed in front of the inherited name in the same clause
                    quoted = '"q-%d" ' % (self.k + 1)
                lines.append("%sinherit (%s) %s%s;" % (ind, hname, quoted, n))
                if rng.random() < 0.6:
                    # the helper set uses a name it also defines: `r` refers to the *enclosing* scope's name
                    # (a plain set binds nothing for its own values)
                    other = rng.choice([x for x in NAMES if x != n])
                    lines.append("%s%s = { %s%s = %s; %s = %s; r = %s; };" % (ind, hname, ('%s= 0; ' % quoted) if quoted else "", n, self.lit(), other, self.lit(), other))
                    if not in_set:
                        self.helpers.append((hname, other))
                elif rng.random() < 0.2:
                    # the source passes the name on from *its* surroundings (`s = { inherit n; }`)
                    lines.append("%s%s = { %sinherit %s; };" % (ind, hname, ('%s= 0; ' % quoted) if quoted else "", n))
                else:
                    lines.append("%s%s = { %s%s = %s; };" % (ind, hname, ('%s= 0; ' % quoted) if quoted else "", n, self.lit()))
            else:
                lines.append("%s%s = %s + 1;" % (ind, n, self.lit()))
        if rng.random() < 0.12 and len(names) <= 1:
            # diamond: two clauses inherit from one source whose member refers (outward) to the other inherited
            # name - the source is reached twice on one chain without any cycle
            a, b = rng.sample(NAMES, 2)
            if not any(l.lstrip().startswith((a + " ", b + " ", "inherit " + a, "inherit " + b)) or (" " + a + ";") in l or (" " + b + ";") in l for l in lines):
                hname = "s%d" % (self.k + 1)
                if rng.random() < 0.5:
                    lines.append("%sinherit (%s) %s;" % (ind, hname, a))
                    lines.append("%sinherit (%s) %s;" % (ind, hname, b))
                else:
                    lines.append("%sinherit (%s) %s %s;" % (ind, hname, a, b))  # both names in one clause
                lines.append("%s%s = { %s = %s; %s = %s; };" % (ind, hname, a, b, b, self.lit()))
        if self.cycles and rng.random() < 0.06 and not names:
            a, b = rng.sample(NAMES, 2)
            lines.append("%s%s = %s;" % (ind, a, b))
            lines.append("%s%s = %s;" % (ind, b, a))
        if rng.random() < 0.3:
            lines.append("%sk%d = %s;" % (ind, self.k + 1, self.lit()))
        return lines

    def program(self) -> dict:
        rng = self.rng
        out: list[str] = []
        if self.allow_lambda and rng.random() < 0.3:
            forms = []
            for n in NAMES:
                r = rng.random()
                if r < 0.2:
                    forms.append(n)
                elif r < 0.4:
                    forms.append("%s ? %s" % (n, self.lit()))
            forms.append("lib")
            out.append("{ %s }:" % ", ".join(forms))
        nwrap = rng.randint(0, self.max_wrappers)
        helpers: list[str] = []
        let_layers: list[list[str]] = []
        for _ in range(nwrap):
            r = rng.random()
            if r < 0.6:
                lines = self.binder_lines("  ", in_set=False)
                if not lines:
                    lines = ["  k%d = %s;" % (self.k + 1, self.lit())]
                out.append("let")
                out.extend(lines)
                out.append("in")
                let_layers.append(list(lines))
            elif r < 0.85 and self.allow_with:
                rr = rng.random()

                def env_members():
                    # members of an environment: literals, and references to the other names (in a plain set they
                    # mean the surroundings of the place where the set is *written*, in a `rec` set its own members)
                    ms = []
                    for n in NAMES:
                        if rng.random() < 0.6:
                            ms.append("%s = %s;" % (n, self.lit() if rng.random() < 0.7 else rng.choice([x for x in NAMES if x != n])))
                    return " ".join(ms) or ("k%d = %s;" % (self.k + 1, self.lit()))

                rec_env = "rec " if rng.random() < 0.3 else ""
                if rr < 0.55:
                    out.append("with %s{ %s };" % (rec_env, env_members()))
                elif rr < 0.8:
                    name = "e%d" % (self.k + 1)
                    out.append("let")
                    out.append("  %s = %s{ %s };" % (name, rec_env, env_members()))
                    out.append("in")
                    if rng.random() < 0.5:
                        # a layer between the place where the environment is written and the `with` that uses it
                        shadow = self.binder_lines("  ", in_set=False) or ["  k%d = %s;" % (self.k + 1, self.lit())]
                        out.append("let")
                        out.extend(shadow)
                        out.append("in")
                    out.append("with %s;" % name)
                else:
                    out.append("with lib;")
            elif r < 0.93 or not self.allow_lambda:
                out.append("assert true;")
            else:
                # a further (curried) lambda head in the middle of the wrapper chain
                forms = [n for n in NAMES if rng.random() < 0.25] + ["pkgs"]
                out.append("{ %s }:" % ", ".join(forms))
        call = ""
        if self.allow_call and rng.random() < 0.12:
            call = rng.choice(["f ", "lib.mk "])
        rec = rng.random() < 0.5
        body: list[str] = []
        body.extend(self.binder_lines("  ", in_set=True))
        probes: list[list[str]] = []
        for i, n in enumerate(NAMES, start=1):
            if rng.random() < 0.8:
                body.append("  x%d = %s;" % (i, n))
                probes.append(["x%d" % i])
        if rng.random() < 0.45:
            mrec = rng.random() < 0.5
            inner = []
            for n in NAMES:
                if rng.random() < 0.35:
                    inner.append("    %s = %s;" % (n, self.lit() if rng.random() < 0.7 else rng.choice([x for x in NAMES if x != n])))
            yn, zn = rng.sample(NAMES, 2)
            inner.append("    y = %s;" % yn)
            inner.append("    z = %s;" % zn)
            deep = rng.random() < 0.35
            if deep:
                # one level further down: the scopes of the intermediate level (m's own members if it is `rec`)
                # must still be in the chain when the reference at the leaf is resolved
                inner.append("    t = {")
                inner.append("      u = %s;" % rng.choice(NAMES))
                inner.append("    };")
            body.append("  m = %s{" % ("rec " if mrec else ""))
            body.extend(inner)
            body.append("  };")
            probes.append(["m", "y"])
            probes.append(["m", "z"])
            if deep:
                probes.append(["m", "t", "u"])
        with_probes: list[list[str]] = []
        if self.allow_with and rng.random() < 0.3:
            # a nested `with` expression as attribute value: its environment is weak against every enclosing
            # let / rec / formal, also when the expression is reached through a handle taken earlier
            env = " ".join("%s = %s;" % (n, self.lit()) for n in NAMES if rng.random() < 0.7) or ("k%d = %s;" % (self.k + 1, self.lit()))
            yn, zn = rng.sample(NAMES, 2)
            body.append("  w = with { %s }; {" % env)
            body.append("    y = %s;" % yn)
            body.append("    z = %s;" % zn)
            body.append("  };")
            with_probes = [["w", "y"], ["w", "z"]]
        if let_layers and rng.random() < 0.2:
            # a nested value with a let layer of its own that is spelled exactly like an enclosing layer (same names,
            # same values): equal content, two scopes - whatever binds the names in between still wins over the outer one
            layer = rng.choice(let_layers)
            yn, zn = rng.sample(NAMES, 2)
            body.append("  v = let")
            body.extend("  " + ln for ln in layer)
            body.append("  in {")
            body.append("    y = %s;" % yn)
            body.append("    z = %s;" % zn)
            body.append("  };")
            with_probes = with_probes + [["v", "y"], ["v", "z"]]
        deref: list[list[str]] = []
        if self.helpers and rng.random() < 0.7:
            # reach a helper set through a name and look at the reference inside it
            hname, _ = rng.choice(self.helpers)
            body.append("  y%s = %s;" % (hname[1:], hname))
            deref.append(["y%s" % hname[1:], "->", "r"])
        if not probes:
            body.append("  x1 = n1;")
            probes.append(["x1"])
        rng.shuffle(body) if rng.random() < 0.3 and not any(l.startswith("  m = ") or l.startswith("  w = ") or l.startswith("  v = ") or l == "  in {" or l.startswith("    ") or l.startswith("      ") or l == "  };" for l in body) else None
        text = "\n".join(out)
        if out:
            text += "\n"
        text += call + ("rec " if rec else "") + "{\n" + "\n".join(body) + "\n}\n"
        # (`deref_probes` and `with_probes` are not NPaths: the resolution engine uses them, the edit engine does not)
        return {"text": text, "probes": probes, "deref_probes": deref + with_probes}
