"""Developer aid: run a property in-process and summarise violations by oracle/region."""

from __future__ import annotations

import collections
import json

from . import core
from .runner import load_known, match_known


def main(pid: str, tier: str, runs: int, show: int) -> int:
    from .props import PROPERTIES

    prop = PROPERTIES[pid]
    batch = core.batch_seed()
    known = load_known(pid)
    by = collections.defaultdict(list)
    stats = collections.Counter()
    for idx in range(runs):
        seed = core.run_seed(batch, pid, idx)
        case = prop.generate(seed, tier)
        viols, st, _ = prop.execute(case)
        stats.update(st)
        for v in viols:
            tag = "KNOWN " if match_known(v, known) else ""
            by[tag + v.oracle].append((case, v))
    print(json.dumps(dict(sorted(stats.items())), indent=0)[:3000])
    for oracle, hits in sorted(by.items()):
        print("=" * 70)
        print(oracle, len(hits))
        regions = collections.Counter(json.dumps({k: v for k, v in h[1].facts.items() if k not in ("pred", "nsegs", "outer")}, sort_keys=True) for h in hits)
        for r, c in regions.most_common(8):
            print("   ", c, r)
        if oracle.startswith("KNOWN"):
            continue
        hits.sort(key=lambda h: len(h[0].get("doc", "")) + 50 * len(h[0].get("ops", [])))
        for case, v in hits[:show]:
            print("--- seed", case["seed"], "step", v.step)
            print(case.get("doc"))
            print(case.get("ops"))
            print(v.message[:700])
    return 0
