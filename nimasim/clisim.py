"""Process simulator for the command line (C16, and the CLI clauses of C07/C08).

``nix_manipulator.cli.main.main(argv)`` runs in-process with simulated
stdin / stdout / stderr: stdin is delivered in PRNG-chosen chunks (down to one
byte, so multi-byte characters are split), ``-f FILE`` reads a real file in a
per-run scratch directory, stdout is a sink that can fail with EPIPE / ENOSPC at
a chosen byte.  ``SystemExit`` and uncaught exceptions are mapped to the exit
status the interpreter would give.  A sample of the same invocations is run as
real subprocesses and must agree byte for byte (else: harness error).
"""

from __future__ import annotations

import errno
import io
import os
import shutil
import subprocess
import sys
import tempfile

from . import gen, reader
from .core import Streams, Violation, digest


def scratch_root() -> str:
    base = os.environ.get("VERIF_SCRATCH")
    if not base:
        base = "/dev/shm" if os.path.isdir("/dev/shm") and os.access("/dev/shm", os.W_OK) else tempfile.gettempdir()
    return tempfile.mkdtemp(prefix="nimasim-", dir=base)


class ChunkedRaw(io.RawIOBase):
    """Raw byte source that hands out at most sizes[k] bytes per read call."""

    def __init__(self, data: bytes, sizes: list[int]):
        super().__init__()
        self.data = data
        self.pos = 0
        self.sizes = sizes or [1 << 16]
        self.k = 0
        self.reads = 0

    def readable(self):
        return True

    def readinto(self, b):
        if self.pos >= len(self.data):
            return 0
        n = min(len(b), self.sizes[self.k % len(self.sizes)], len(self.data) - self.pos)
        self.k += 1
        self.reads += 1
        b[:n] = self.data[self.pos:self.pos + n]
        self.pos += n
        return n


class FaultySink(io.RawIOBase):
    """Raw byte sink that raises OSError(err) once `limit` bytes were accepted."""

    def __init__(self, limit: int | None = None, err: int = errno.EPIPE, short: bool = False, piece: int | None = None):
        super().__init__()
        # piecewise: every call accepts at most `piece` bytes and reports that count, no error ever (a pipe with a
        # slow reader, a tty, a socket); a complete writer re-submits the rest until everything is out
        self.piece = piece
        self.partial_writes = 0
        self.buf = bytearray()
        self.limit = limit
        self.err = err
        self.fired = False
        # short write: the call that crosses the limit accepts the part that fits and reports that count (what
        # write(2) does on a nearly full disk, a file size limit or a pipe); the error comes with the next call
        self.short = short

    def writable(self):
        return True

    def write(self, b):
        data = bytes(b)
        if self.piece is not None and len(data) > self.piece:
            self.buf += data[: self.piece]
            self.partial_writes += 1
            return self.piece
        if self.limit is not None and len(self.buf) + len(data) > self.limit:
            room = max(0, self.limit - len(self.buf))
            self.buf += data[:room]
            if self.short and room and not self.fired:
                self.fired = True
                return room
            self.fired = True
            raise OSError(self.err, os.strerror(self.err))
        self.buf += data
        return len(data)


class Result:
    __slots__ = ("status", "stdout", "stderr", "exc", "out_fault_fired", "stdin_reads")

    def key(self):
        return (self.status, self.stdout)


def run_inprocess(argv: list[str], *, stdin_bytes: bytes | None, chunks: list[int] | None = None,
                  stdin_closed: bool = False, out_limit: int | None = None, out_err: int = errno.EPIPE, out_short: bool = False, out_piece: int | None = None,
                  stack_room: int | None = None) -> Result:
    from nix_manipulator.cli.main import main

    res = Result()
    raw_in = ChunkedRaw(stdin_bytes or b"", chunks or [])
    # like the interpreter's own sys.stdin on POSIX: no newline translation
    stdin = io.TextIOWrapper(io.BufferedReader(raw_in, buffer_size=8192), encoding="utf-8", errors="strict", newline="\n")
    if stdin_closed:
        stdin.close()
    sink = FaultySink(out_limit, out_err, out_short, out_piece)
    stdout = io.TextIOWrapper(sink, encoding="utf-8", errors="strict", write_through=True)
    errsink = FaultySink()
    stderr = io.TextIOWrapper(errsink, encoding="utf-8", errors="backslashreplace", write_through=True)
    old = sys.stdin, sys.stdout, sys.stderr
    sys.stdin, sys.stdout, sys.stderr = stdin, stdout, stderr
    res.exc = None
    old_limit = sys.getrecursionlimit()
    try:
        try:
            if stack_room is not None:
                # resource fault: the interpreter stack has room for `stack_room` more frames (a deeply nested
                # document then overflows it inside the library)
                import inspect

                sys.setrecursionlimit(len(inspect.stack(0)) + stack_room)
            try:
                rc = main(argv)
            finally:
                sys.setrecursionlimit(old_limit)
            status = 0 if rc is None else (rc if isinstance(rc, int) else 1)
        except SystemExit as e:
            code = e.code
            status = 0 if code is None else (code if isinstance(code, int) else 1)
        except BaseException as e:  # noqa: BLE001 - what the interpreter would turn into a traceback
            res.exc = type(e).__name__
            status = 1
        try:
            stdout.flush()
        except OSError:
            if status == 0:
                status = 120
    finally:
        sys.stdin, sys.stdout, sys.stderr = old
    res.status = status
    res.stdout = bytes(sink.buf)
    res.stderr = bytes(errsink.buf)
    res.out_fault_fired = sink.fired
    res.stdin_reads = raw_in.reads
    return res


def run_subprocess(argv: list[str], *, stdin_bytes: bytes | None, cwd: str, to_dev_full: bool = False) -> Result:
    env = dict(os.environ)
    env["PYTHONHASHSEED"] = "0"
    env["PYTHONIOENCODING"] = "utf-8:strict"
    alt = os.environ.get("NIMASIM_REPO")
    if alt:
        env["PYTHONPATH"] = alt
    res = Result()
    out = open("/dev/full", "wb") if to_dev_full else subprocess.PIPE
    try:
        proc = subprocess.run([sys.executable, "-m", "nix_manipulator"] + argv, input=stdin_bytes if stdin_bytes is not None else b"",
                              stdout=out, stderr=subprocess.PIPE, cwd=cwd, env=env, timeout=120)
    finally:
        if to_dev_full:
            out.close()
    res.status = proc.returncode
    res.stdout = proc.stdout if not to_dev_full else b""
    res.stderr = proc.stderr
    res.exc = None
    res.out_fault_fired = to_dev_full
    res.stdin_reads = 0
    return res


# ---------------------------------------------------------------------------
# library reference
# ---------------------------------------------------------------------------


def library_edit(text: str, cmd: list[str]):
    """('ok', text) | ('exc', class name) of the library call behind a CLI command."""
    from nix_manipulator import parse
    from nix_manipulator.cli.manipulations import remove_value, set_value

    try:
        src = parse(text)
        if cmd[0] == "set":
            return ("ok", set_value(src, cmd[1], cmd[2]))
        return ("ok", remove_value(src, cmd[1]))
    except Exception as e:  # noqa: BLE001
        return ("exc", type(e).__name__)


def library_verdict(text: str) -> bool:
    """What `nima test` must say: no syntax error (independent scan) and identical rebuild."""
    from nix_manipulator import parse

    if reader.Doc(text).has_error():
        return False
    try:
        return parse(text).rebuild() == text
    except Exception:  # noqa: BLE001
        return False


# ---------------------------------------------------------------------------
# generation
# ---------------------------------------------------------------------------


DAMAGES = ["{", "}", "{ a = ; }", "{ a = 1 }", "let x = 1; in", "[ 1 2", "\"open", "{ a = 1; } }", "= 1;"]
EXOTIC = [
    "http://example.org/x.tar.gz", "x:y", "<nixpkgs>", "<nixpkgs/lib>", "~/x.nix", "let { body = 1; }", "1.5e3", ".5", "a.${b}", "\"${a}\".b",
    "{ ${a} = 1; }", "{ \"${a}\" = 1; }", "a ? b.c", "a.b or c", "a: b: c", "{ a, ... } @ args: a", "args @ { a ? 1 }: a", "''\n  ''${x} '''\n''",
    "\"\\${x}\"", "1 - -1", "a -> b", "!a && -b < 3", "./a/${b}/c", "import ./x.nix { }", "builtins.foo or null", "e: e.x", "/abs/path", "a.\"b c\".d",
    "[ ]", "{ }", "rec { }", "assert a; b", "with a; b", "if a then b else c", "(a)", "a // b", "a ++ b", "x: { }", "{ inherit a; inherit (b) c d; }", "__curPos",
    "{ a.b.c = 1; a.b.d = 2; }", "f { } { }", "1 + 2 * 3", "[ (f x) ]", "''a''", "\"\"",
]


def gen_text(st: Streams, tier: str, seed: int):
    rng = st("text")
    cfg = gen.swarm(st("swarm"), tier)
    r = rng.random()
    doc = gen.DocGen(st("doc"), cfg, docnum=seed % 1000).document()
    while doc.count("\n") > 80:
        cfg["max_members"] = max(1, cfg["max_members"] - 1)
        cfg["max_depth"] = max(0, cfg["max_depth"] - 1)
        doc = gen.DocGen(st("doc"), cfg, docnum=seed % 1000).document()
    kind = "canonical"
    if r < 0.2:
        doc = gen.perturb_whitespace(st("perturb"), doc)
        kind = "perturbed"
    elif r < 0.35:
        kind = "damaged"
        rr = rng.random()
        if rr < 0.4 and len(doc) > 2:
            cut = rng.randrange(1, len(doc))
            doc = doc[:cut]
        elif rr < 0.7:
            doc = rng.choice(DAMAGES) + ("\n" if rng.random() < 0.5 else "")
        else:
            pos = rng.randrange(0, len(doc) + 1)
            doc = doc[:pos] + rng.choice(["}", "{", ";", "= =", "in", "''"]) + doc[pos:]
    elif r < 0.42:
        kind = "empty"
        doc = rng.choice(["", "\n", "  ", "# only a comment\n"])
    elif r < 0.5:
        kind = "nonascii"
        doc = "# héllo ☃\n" + doc.replace('"s', '"ß')
    elif r < 0.54:
        kind = "bom"
        doc = "\ufeff" + doc
    elif r < 0.58:
        kind = "crlf"
        doc = doc.replace("\n", "\r\n")
    elif r < 0.66:
        # valid syntax off the beaten track (some of it the library does not represent at all):
        # whatever the library does with it, the command line must report exactly that
        kind = "exotic"
        e = rng.choice(EXOTIC)
        form = rng.random()
        if form < 0.4:
            doc = e + "\n"
        elif form < 0.8:
            doc = "{\n  a = %s;\n  b = 2;\n}\n" % e
        else:
            doc = "x:%s\n{\n}%s" % (rng.choice(["''", "y", "//h"]), rng.choice(["", "\n"]))
    if kind == "canonical":
        tail = rng.random()
        if tail < 0.1:
            doc = doc.rstrip("\n")
        elif tail < 0.15:
            doc = doc.rstrip("\n") + "\n\n"
    return kind, doc, cfg


def generate_pipeline(seed: int, tier: str) -> dict:
    """A short editing session carried out through the CLI: each command reads the file and its stdout
    is redirected over the file (the process boundary is the restart)."""
    from .model import DocModel

    st = Streams(seed)
    cfg = gen.swarm(st("swarm"), tier, profile="scope" if st("swarm").random() < 0.5 else "edit")
    cfg["fail_rate"] = 0.1
    doc = gen.DocGen(st("doc"), cfg, docnum=seed % 1000).document()
    while doc.count("\n") > 60:
        cfg["max_members"] = max(1, cfg["max_members"] - 1)
        cfg["max_depth"] = max(0, cfg["max_depth"] - 1)
        doc = gen.DocGen(st("doc"), cfg, docnum=seed % 1000).document()
    dm = DocModel(reader.decode(doc))
    og = gen.OpGen(st("ops"), cfg, seed)
    cmds = []
    for _ in range(st("ops").randint(2, 4)):
        if not dm.editable:
            break
        op = og.pick(dm, scoped_bias=0.5)
        cmds.append(["set", op["path"], op["value"]] if op["op"] == "set" else ["rm", op["path"]])
        if dm.apply(op)[0] == "unspecified":
            break
    return {"prop": "C16", "engine": "cli", "seed": seed, "tier": tier, "text_kind": "pipeline", "input": doc, "cmds": cmds,
            "cmd": ["pipeline"], "chunks": [], "fault": None, "flag_first": st("ops").random() < 0.5}


def execute_pipeline(case: dict, root: str):
    viols: list[Violation] = []
    stats: dict = {"invocations": 0, "kind:pipeline": 1, "pipeline_steps": 0}
    path = os.path.join(root, "session.nix")
    text = case["input"]
    with open(path, "w", encoding="utf-8", newline="") as fh:
        fh.write(text)
    for k, cmd in enumerate(case["cmds"]):
        if _arg_problem(cmd):
            break
        lib = library_edit(text, cmd)
        r = run_inprocess(_argv(cmd, path, case["flag_first"]), stdin_bytes=b"")
        stats["invocations"] += 1
        stats["pipeline_steps"] += 1
        facts = {"cmd": cmd[0], "text_kind": "pipeline", "step": k, "scoped": cmd[1].startswith("@"), "lib": lib[0] if lib[0] == "ok" else lib[1],
                 "fault": None, "channel": "file"}
        if lib[0] != "ok":
            if r.status == 0 or r.stdout:
                viols.append(Violation("C16.error_exit0" if r.status == 0 else "C16.error_stdout", "step %d `%s`: library refuses (%s) but status %d stdout %r" % (k, " ".join(cmd), lib[1], r.status, r.stdout[:80]), None, facts))
                break
            continue  # the shell would not redirect a failed command over the file
        want = lib[1] + ("" if lib[1].endswith("\n") else "\n")
        facts["lib_ends_nl"] = lib[1].endswith("\n")
        if r.status != 0:
            viols.append(Violation("C16.status", "step %d `%s`: exit status %d, expected 0 (%s)" % (k, " ".join(cmd), r.status, r.stderr[-120:]), None, facts))
            break
        if r.stdout != want.encode("utf-8"):
            facts["newline_only"] = r.stdout.rstrip(b"\n") == want.encode("utf-8").rstrip(b"\n")
            viols.append(Violation("C16.stdout", "step %d `%s`: stdout differs from the library text: got …%r want …%r" % (k, " ".join(cmd), r.stdout[-60:], want[-60:]), None, facts))
            break
        with open(path, "wb") as fh:
            fh.write(r.stdout)
        text = r.stdout.decode("utf-8")
        t = run_inprocess(["test", "-f", path], stdin_bytes=b"")
        stats["invocations"] += 1
        ok = library_verdict(text)
        want_t = (b"OK\n", 0) if ok else (b"Fail\n", 1)
        if (t.stdout, t.status) != want_t:
            viols.append(Violation("C16.test_verdict", "step %d: `nima test` says %r/%d, library verdict is %s" % (k, t.stdout, t.status, ok), None, facts))
            break
        if case["input"].endswith("\n") and not case["input"].endswith("\n\n") and library_verdict(case["input"]) and library_verdict(lib[1]) and not text.endswith("\n"):
            viols.append(Violation("C16.final_newline_lost", "step %d: the file ended in one newline and no longer does" % k, None, facts))
            break
    from .core import digest as _dg

    return viols, stats, [_dg([case["input"], case["cmds"]])]


def generate(seed: int, tier: str) -> dict:
    st = Streams(seed)
    if st("kind").random() < 0.3:
        return generate_pipeline(seed, tier)
    kind, text, cfg = gen_text(st, tier, seed)
    rng = st("cli")
    from .model import DocModel

    r = rng.random()
    if r < 0.3:
        cmd = ["test"]
    else:
        cfg["fail_rate"] = 0.25
        dm = DocModel(reader.decode(text))
        og = gen.OpGen(st("ops"), cfg, seed)
        if dm.editable and not dm.error:
            op = og.pick(dm, scoped_bias=0.2)
        else:
            op = {"op": "set", "path": rng.choice(gen.NAMES), "value": og.fresh_value()} if rng.random() < 0.6 else {"op": "rm", "path": rng.choice(gen.NAMES)}
        cmd = ["set", op["path"], op["value"]] if op["op"] == "set" else ["rm", op["path"]]
        if any("\x00" in a for a in cmd):
            # (the model's internal marker for dynamic attribute names `${a} = …;`; a command line cannot carry a NUL)
            cmd = ["set", "zz9", "1"] if op["op"] == "set" else ["rm", "zz9"]
    data = text.encode("utf-8")
    nchunks = rng.choice([0, 0, 1, 2, 3])
    if nchunks == 0:
        chunks: list[int] = []
    else:
        chunks = [rng.choice([1, 1, 2, 3, 5, 7, 64, 4096]) for _ in range(rng.randint(1, 6))]
    fault = None
    fr = rng.random()
    if fr < 0.05:
        fault = {"kind": "missing_file"}
    elif fr < 0.08:
        fault = {"kind": "directory"}
    elif fr < 0.13:
        fault = {"kind": "undecodable", "at": rng.randrange(0, len(data) + 1), "bytes": rng.choice(["ff", "c3", "e28c", "fe80"])}
    elif fr < 0.16:
        fault = {"kind": "stdin_closed"}
    elif fr < 0.26:
        fault = {"kind": "stdout", "err": rng.choice(["EPIPE", "ENOSPC", "EFBIG"]), "at": rng.choice([0, 0, 1, 2, 5, 17, 100]), "short": rng.random() < 0.4}
    elif 0.34 <= fr < 0.40:
        # a deeply nested document and little room on the interpreter stack
        depth = rng.choice([40, 80, 110])
        deep = "(" * depth + str(seed % 9000 + 1000) + ")" * depth
        if rng.random() < 0.4:
            deep = " ++ ".join("a%d" % i for i in range(depth // 2))
        text = (deep + "\n") if cmd[0] == "test" or rng.random() < 0.3 else "{\n  a = %s;\n}\n" % deep
        data = text.encode("utf-8")
        kind = "deep"
        fault = {"kind": "stack_limit", "room": rng.choice([60, 100, 200, 400, 1000])}
    elif fr < 0.34 and cmd[0] != "test":
        # (`nima test` answers with a three-byte `print`, which python's own text layer hands to the raw stream)
        # not an error at all: stdout takes the bytes a few at a time; the contract is the fault-free one
        fault = {"kind": "stdout_piecewise", "piece": rng.choice([1, 2, 3, 5, 7, 64, 1000])}
    return {"prop": "C16", "engine": "cli", "seed": seed, "tier": tier, "text_kind": kind, "input": text, "cmd": cmd,
            "chunks": chunks, "fault": fault, "flag_first": rng.random() < 0.5}


# ---------------------------------------------------------------------------
# execution
# ---------------------------------------------------------------------------


def _argv(cmd, path, flag_first):
    if path is None:
        return list(cmd)
    if flag_first:
        return [cmd[0], "-f", path] + cmd[1:]
    return list(cmd) + ["-f", path]


def _arg_problem(cmd) -> bool:
    """Arguments argparse itself would trip over (leading '-'): usage error, not our business."""
    return any(a.startswith("-") for a in cmd[1:])


def execute(case: dict, *, root: str | None = None, subprocess_check: bool = False):
    text, cmd, fault = case["input"], case["cmd"], case["fault"]
    viols: list[Violation] = []
    stats: dict = {"invocations": 0, "kind:" + case["text_kind"]: 1, "cmd:" + cmd[0]: 1}
    own_root = root is None
    if own_root:
        root = scratch_root()
    try:
        if case.get("text_kind") == "pipeline":
            return execute_pipeline(case, root)
        data = text.encode("utf-8")
        fkind = fault["kind"] if fault else None
        if fkind == "undecodable":
            data = data[:fault["at"]] + bytes.fromhex(fault["bytes"]) + data[fault["at"]:]
            try:
                data.decode("utf-8")
                fkind = None  # the inserted bytes happened to form valid UTF-8
                text = data.decode("utf-8")
            except UnicodeDecodeError:
                pass
        path = os.path.join(root, "input.nix")
        with open(path, "wb") as fh:
            fh.write(data)
        facts = {"cmd": cmd[0], "text_kind": case["text_kind"], "fault": fkind,
                 "ends_nl": text.endswith("\n"), "chunks": len(case["chunks"])}
        if fkind:
            stats["fault:" + fkind] = 1
        out_limit = None
        out_err = errno.EPIPE
        out_short = False
        if fkind == "stdout":
            out_limit = fault["at"]
            out_err = getattr(errno, fault["err"])
            out_short = bool(fault.get("short"))
            if out_short:
                stats["fault:stdout_short_write"] = 1
        out_piece = fault["piece"] if fkind == "stdout_piecewise" else None
        stack_room = fault["room"] if fkind == "stack_limit" else None
        if out_piece:
            stats["fault:stdout_piecewise"] = 1

        runs: dict[str, Result] = {}
        # channel 1: stdin
        if fkind not in ("missing_file", "directory"):
            runs["stdin"] = run_inprocess(list(cmd), stdin_bytes=data, chunks=case["chunks"],
                                          stdin_closed=(fkind == "stdin_closed"), out_limit=out_limit, out_err=out_err, out_short=out_short, out_piece=out_piece, stack_room=stack_room)
            stats["invocations"] += 1
            stats["stdin_reads"] = runs["stdin"].stdin_reads
        # channel 2: -f FILE
        if fkind != "stdin_closed":
            fpath = path
            if fkind == "missing_file":
                fpath = os.path.join(root, "does-not-exist.nix")
            elif fkind == "directory":
                fpath = root
            runs["file"] = run_inprocess(_argv(cmd, fpath, case["flag_first"]), stdin_bytes=b"", out_limit=out_limit, out_err=out_err, out_short=out_short, out_piece=out_piece, stack_room=stack_room)
            stats["invocations"] += 1

        usage = _arg_problem(cmd)
        input_error = fkind in ("missing_file", "directory", "undecodable", "stdin_closed")
        if usage:
            stats["skip:usage"] = 1
            for ch, r in runs.items():
                if r.status == 0 or r.stdout:
                    viols.append(Violation("C16.usage_error_not_loud", "argument error: status %d stdout %r" % (r.status, r.stdout[:80]), None, dict(facts, channel=ch)))
            return viols, stats, [digest([case["cmd"], case["text_kind"], fkind])]
        if input_error:
            for ch, r in runs.items():
                if r.status == 0 or r.stdout:
                    viols.append(Violation("C16.input_error_not_loud", "%s on %s: status %d, stdout %r" % (fkind, ch, r.status, r.stdout[:80]), None, dict(facts, channel=ch)))
            return viols, stats, [digest([case["cmd"], case["text_kind"], fkind])]

        # expected behaviour from the library (the reference call always has plenty of stack: under the stack fault
        # the fault-free answer is what is compared with, wherever this harness happens to be called from)
        _limit = sys.getrecursionlimit()
        sys.setrecursionlimit(max(_limit, 20000))
        try:
            ref_verdict = library_verdict(text) if cmd[0] == "test" else None
            ref_edit = library_edit(text, cmd) if cmd[0] != "test" else None
        finally:
            sys.setrecursionlimit(_limit)
        if cmd[0] == "test":
            ok = ref_verdict
            want_out, want_status = (b"OK\n", 0) if ok else (b"Fail\n", 1)
            facts["verdict"] = ok
            stats["verdict:" + ("ok" if ok else "fail")] = 1
        else:
            lib = ref_edit
            facts["lib"] = lib[0] if lib[0] == "ok" else lib[1]
            if lib[0] == "ok":
                t = lib[1]
                want_out = (t + ("" if t.endswith("\n") else "\n")).encode("utf-8")
                want_status = 0
                facts["lib_ends_nl"] = t.endswith("\n")
                stats["edit:ok"] = 1
            else:
                want_out, want_status = b"", None  # any non-zero
                stats["edit:refused"] = 1

        if fkind == "stack_limit":
            # the stack may or may not suffice: the fault-free answer, or the answer for "the library could not do it"
            # (`Fail` / 1 for test; non-zero and nothing on stdout for set / rm) - never an escaping exception from
            # `test`, never a partial document
            for ch, r in runs.items():
                f = dict(facts, channel=ch, room=stack_room)
                normal = (want_status is not None and r.status == want_status and r.stdout == want_out) or (want_status is None and r.status != 0 and not r.stdout)
                if not normal:
                    stats["fault_fired:stack_limit"] = stats.get("fault_fired:stack_limit", 0) + 1
                if cmd[0] == "test":
                    if r.exc is not None or not (normal or (r.status == 1 and r.stdout == b"Fail\n")):
                        viols.append(Violation("C16.stack_overflow_not_fail", "nima test with %d frames of stack: status %d, stdout %r, escaping exception %s" % (stack_room, r.status, r.stdout[:40], r.exc), None, f))
                elif not normal and not (r.status != 0 and not r.stdout):
                    viols.append(Violation("C16.error_stdout" if r.stdout else "C16.error_exit0", "%s with %d frames of stack: status %d, stdout %r" % (cmd[0], stack_room, r.status, r.stdout[:60]), None, f))
            return viols, stats, [digest([case["cmd"], case["text_kind"], fkind, stack_room, len(text)])]
        for ch, r in runs.items():
            f = dict(facts, channel=ch)
            if fkind == "stdout":
                if len(want_out) > out_limit:
                    stats["fault_fired:stdout"] = stats.get("fault_fired:stdout", 0) + (1 if r.out_fault_fired else 0)
                    if r.status == 0:
                        viols.append(Violation("C16.output_error_exit0", "stdout failed with %s after %d bytes but the exit status is 0" % (fault["err"], out_limit), None, f))
                    continue
                # the fault did not trigger (output shorter than the limit): fall through to the normal contract
            if want_status is None:
                if r.status == 0:
                    viols.append(Violation("C16.error_exit0", "library refuses (%s) but the command exits 0; stdout %r" % (facts.get("lib"), r.stdout[:80]), None, f))
                elif r.stdout:
                    viols.append(Violation("C16.error_stdout", "library refuses (%s) but stdout is not empty: %r" % (facts.get("lib"), r.stdout[:80]), None, f))
                continue
            if r.status != want_status:
                viols.append(Violation("C16.status", "exit status %d, expected %d (stderr tail %r)" % (r.status, want_status, r.stderr[-160:]), None, f))
                continue
            if r.stdout != want_out:
                only_nl = r.stdout.rstrip(b"\n") == want_out.rstrip(b"\n")
                f["newline_only"] = only_nl
                viols.append(Violation("C16.stdout", "stdout differs from the library text%s: got …%r want …%r" % (" (line terminator only)" if only_nl else "", r.stdout[-60:], want_out[-60:]), None, f))
        if "stdin" in runs and "file" in runs and fkind != "stdout":
            a, b = runs["stdin"], runs["file"]
            if a.key() != b.key():
                viols.append(Violation("C16.channels_differ", "stdin and -f FILE disagree: (%d, …%r) vs (%d, …%r)" % (a.status, a.stdout[-60:], b.status, b.stdout[-60:]), None, facts))

        # pipeline step: write stdout back over the file, then `nima test`
        if cmd[0] != "test" and want_status == 0 and fkind != "stdout" and "file" in runs and runs["file"].status == 0:
            lib_text = lib[1]
            if library_verdict(lib_text) and (not text or text.endswith("\n") or True):
                with open(path, "wb") as fh:
                    fh.write(runs["file"].stdout)
                r2 = run_inprocess(["test", "-f", path], stdin_bytes=b"")
                stats["invocations"] += 1
                stats["pipeline_steps"] = 1
                if lib_text.endswith("\n") and (r2.stdout != b"OK\n" or r2.status != 0):
                    viols.append(Violation("C16.pipeline_test_fails", "`nima test` rejects the redirected output of `nima %s` although the library text is a fixed point: %r" % (cmd[0], r2.stdout), None, dict(facts, channel="file")))

        if subprocess_check:
            stats["subprocess_checks"] = 0
            for ch, r in runs.items():
                if fkind == "stdout" and fault["at"] != 0:
                    continue
                if ch == "stdin":
                    real = run_subprocess(list(cmd), stdin_bytes=data, cwd=root, to_dev_full=(fkind == "stdout"))
                else:
                    with open(path, "wb") as fh:
                        fh.write(data)
                    real = run_subprocess(_argv(cmd, path, case["flag_first"]), stdin_bytes=b"", cwd=root, to_dev_full=(fkind == "stdout"))
                stats["subprocess_checks"] += 1
                same = (real.status == r.status or (fkind == "stdout" and real.status != 0 and r.status != 0)) and (fkind == "stdout" or real.stdout == r.stdout)
                if not same:
                    from .core import HarnessError

                    raise HarnessError("in-process CLI stub disagrees with the real process on %r (%s): stub (%d, %r) real (%d, %r) stderr %r" % (cmd, ch, r.status, r.stdout[-80:], real.status, real.stdout[-80:], real.stderr[-200:]))
        return viols, stats, [digest([case["cmd"], case["text_kind"], fkind, case["chunks"], text])]
    finally:
        if own_root:
            shutil.rmtree(root, ignore_errors=True)


class CliProperty:
    engine = "cli"
    rule = ("one evaluation = one CLI invocation scenario (text kind x command x channel x stdin chunking x input/output fault), "
            "each executed on stdin and on -f FILE plus a pipeline step; distinct = distinct (command, text, chunking, fault)")
    real = ["nix_manipulator.cli.main.main (real code, in-process)", "argparse, TextIOWrapper/BufferedReader (real)", "real files in a scratch directory",
            "a sample of invocations as real subprocesses of `python -m nix_manipulator` (real pipes, /dev/full)"]
    stubbed = ["process boundary (sys.stdin/stdout/stderr objects, SystemExit/uncaught-exception to exit-status mapping)", "stdout device faults (EPIPE/ENOSPC raised by an in-memory sink)"]

    def __init__(self, quick_runs=20000, thorough_runs=300000):
        self.pid = "C16"
        self.runs = {"quick": quick_runs, "thorough": thorough_runs}
        self.subprocess_every = {"quick": 150, "thorough": 150}

    def generate(self, seed, tier):
        return generate(seed, tier)

    def execute(self, case):
        sub = (case["seed"] % self.subprocess_every.get(case.get("tier", "quick"), 150)) == 0
        return execute(case, subprocess_check=sub)

    def shrink_candidates(self, case):
        if case["chunks"]:
            c = dict(case)
            c["chunks"] = []
            yield c
        lines = case["input"].split("\n")
        size = max(1, len(lines) // 2)
        while size >= 1:
            for start in range(0, len(lines), size):
                doc = "\n".join(lines[:start] + lines[start + size:])
                if doc != case["input"]:
                    c = dict(case)
                    c["input"] = doc
                    yield c
            size //= 2
