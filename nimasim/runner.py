"""Batch runner: seeds -> cases -> executions -> triage -> shrink -> replay/evidence."""

from __future__ import annotations

import faulthandler
import json
import multiprocessing
import os
import sys
import time
import traceback
from concurrent.futures import ProcessPoolExecutor, as_completed

from . import core
from .core import EXIT_HARNESS, EXIT_OK, EXIT_VIOLATION, Violation

KNOWN_FILE = os.path.join(core.VERIF_ROOT, "known_findings.json")
REPLAY_DIR = os.environ.get("NIMASIM_REPLAY_DIR") or os.path.join(core.VERIF_ROOT, "replays")
EVIDENCE_DIR = os.environ.get("NIMASIM_EVIDENCE_DIR") or os.path.join(core.VERIF_ROOT, "evidence")

PER_RUN_WALL_S = 120


# ---------------------------------------------------------------------------
# known findings
# ---------------------------------------------------------------------------


def load_known(prop: str) -> list[dict]:
    if not os.path.exists(KNOWN_FILE):
        return []
    with open(KNOWN_FILE) as fh:
        data = json.load(fh)
    return [e for e in data.get("known", []) if e.get("property") == prop]


def _fact_match(want, have) -> bool:
    if isinstance(want, dict):
        if "contains" in want:
            return isinstance(have, (list, tuple, str)) and want["contains"] in have
        if "not_contains" in want:
            return not (isinstance(have, (list, tuple, str)) and want["not_contains"] in have)
        if "in" in want:
            return have in want["in"]
        if "endswith" in want:
            return isinstance(have, list) and have[-len(want["endswith"]):] == want["endswith"]
        if "ge" in want:
            return isinstance(have, (int, float)) and have >= want["ge"]
        return False
    return want == have


def match_known(v: Violation, known: list[dict]) -> dict | None:
    for e in known:
        if e.get("oracle") != v.oracle:
            continue
        where = e.get("where", {})
        if all(_fact_match(w, v.facts.get(k)) for k, w in where.items()):
            return e
    return None


# ---------------------------------------------------------------------------
# worker
# ---------------------------------------------------------------------------


def _stable(stats: dict) -> dict:
    """Counters that are functions of the case alone (reach probes that depend on memory addresses or on
    process-global leftovers of earlier cases are reported but kept out of the determinism digest)."""
    return {k: v for k, v in stats.items() if not (k.startswith("probe:") or k.startswith("volatile:"))}


def _execute_one(pid: str, seed: int, tier: str):
    from .props import PROPERTIES

    prop = PROPERTIES[pid]
    case = prop.generate(seed, tier)
    viols, stats, keys = prop.execute(case)
    return case, viols, stats, keys


def _worker(args):
    """Run one chunk in a child forked from this (never used) pool worker.

    The process-wide state a case can see is then exactly what the earlier cases of the *same chunk* left
    behind, which makes a history-dependent violation replayable as "chunk prefix + case".
    """
    import pickle

    r, w = os.pipe()
    child = os.fork()
    if child == 0:
        code = 0
        try:
            os.close(r)
            data = pickle.dumps(_worker_chunk(args))
            with os.fdopen(w, "wb") as fh:
                fh.write(data)
        except BaseException:  # noqa: BLE001
            traceback.print_exc()
            code = 3
        finally:
            os._exit(code)
    os.close(w)
    with os.fdopen(r, "rb") as fh:
        data = fh.read()
    _, status = os.waitpid(child, 0)
    if status != 0 or not data:
        pid_, tier_, batch_, indices_, _ = args
        return [{"idx": indices_[0], "seed": core.run_seed(batch_, pid_, indices_[0]),
                 "harness_error": "chunk %d..%d died with wait status %d" % (indices_[0], indices_[-1], status)}]
    return pickle.loads(data)


def _worker_chunk(args):
    pid, tier, batch, indices, want_samples = args
    faulthandler.enable()
    results = []
    for idx in indices:
        seed = core.run_seed(batch, pid, idx)
        faulthandler.dump_traceback_later(PER_RUN_WALL_S, exit=True)
        try:
            case, viols, stats, keys = _execute_one(pid, seed, tier)
            rec = {
                "idx": idx,
                "seed": seed,
                "chunk_start": indices[0],
                "viols": [v.to_json() for v in viols],
                "stats": stats,
                "keys": keys,
                "digest": core.digest([case, [v.to_json() for v in viols], _stable(stats)]),
            }
            if viols or idx in want_samples:
                rec["case"] = case
            results.append(rec)
        except Exception:  # noqa: BLE001 - harness failure, reported as such
            results.append({"idx": idx, "seed": seed, "harness_error": traceback.format_exc()})
        finally:
            faulthandler.cancel_dump_traceback_later()
    return results


def _chunks(n: int, size: int):
    for start in range(0, n, size):
        yield list(range(start, min(n, start + size)))


# ---------------------------------------------------------------------------
# shrinking and replay
# ---------------------------------------------------------------------------


def still_fails(prop, case: dict, oracle: str, known: list[dict]) -> Violation | None:
    try:
        viols, _, _ = prop.execute(case)
    except Exception:  # noqa: BLE001
        return None
    for v in viols:
        if v.oracle == oracle and match_known(v, known) is None:
            return v
    return None


PREFIX_SHRINK_TRIALS = 8


def shrink(prop, case: dict, oracle: str, known: list[dict], budget: int = 400) -> tuple[dict, int]:
    tries = 0
    improved = True
    while improved and tries < budget:
        improved = False
        for cand in prop.shrink_candidates(case):
            tries += 1
            if tries >= budget:
                break
            if still_fails(prop, cand, oracle, known) is not None:
                case = cand
                improved = True
                break
    return case, tries


def write_replay(pid: str, case: dict, v: Violation, original_len: int, tries: int, prefix_seeds=None, tier="quick") -> str:
    os.makedirs(REPLAY_DIR, exist_ok=True)
    name = "%s-%d-%s.json" % (pid, case.get("seed", 0), v.oracle.replace(".", "_"))
    path = os.path.join(REPLAY_DIR, name)
    doc = {"property": pid, "case": case, "violation": v.to_json(), "original_ops": original_len, "shrink_tries": tries}
    if prefix_seeds:
        doc["prefix_seeds"] = list(prefix_seeds)
        doc["tier"] = tier
        doc["note"] = "history-dependent: the cases generated from prefix_seeds are executed first, in this order, in the same process"
    with open(path, "w") as fh:
        json.dump(doc, fh, indent=1, sort_keys=True, ensure_ascii=False)
    return path


def replay_file(path: str) -> int:
    """Re-execute a replay file in this (fresh) interpreter."""
    from .props import PROPERTIES

    core.assert_repo_import()
    with open(path) as fh:
        data = json.load(fh)
    pid = data["property"]
    prop = PROPERTIES[pid]
    if data.get("kind") == "rerun_mismatch":
        # the case alone in this fresh interpreter, then again after the cases that preceded it in the batch
        tier = data.get("tier", "quick")

        def dig():
            case, viols, stats, _ = _execute_one(pid, data["seed"], tier)
            return core.digest([case, [v.to_json() for v in viols], _stable(stats)])

        first = dig()
        for seed in data.get("prefix_seeds", []):
            try:
                _execute_one(pid, seed, tier)
            except Exception:  # noqa: BLE001
                pass
        second = dig()
        if first != second:
            print("VIOLATION property=%s replay=%s" % (pid, os.path.abspath(path)))
            print("  oracle=%s" % data["violation"]["oracle"])
            print("  " + data["violation"]["message"])
            return EXIT_VIOLATION
        print("replay %s: re-execution after %d other cases gives the same result" % (path, len(data.get("prefix_seeds", []))))
        return EXIT_OK
    # history in the same process: cases that ran before the violating one (regenerated from their seeds)
    for seed in data.get("prefix_seeds", []):
        try:
            prop.execute(prop.generate(seed, data.get("tier", "quick")))
        except Exception:  # noqa: BLE001
            pass
    viols, _, _ = prop.execute(data["case"])
    want = data["violation"]["oracle"]
    hit = [v for v in viols if v.oracle == want]
    if hit:
        print("VIOLATION property=%s replay=%s" % (pid, os.path.abspath(path)))
        print("  oracle=%s step=%s" % (hit[0].oracle, hit[0].step))
        print("  " + hit[0].message[:600])
        return EXIT_VIOLATION
    print("replay %s: oracle %s no longer fires (%d other violations)" % (path, want, len(viols)))
    return EXIT_OK


def _replay_in_fresh_process(path: str) -> bool:
    import subprocess

    env = dict(os.environ)
    env["PYTHONHASHSEED"] = "0"
    proc = subprocess.run(
        [sys.executable, "-m", "nimasim", "replay", path], cwd=core.VERIF_ROOT, env=env,
        capture_output=True, text=True, timeout=300,
    )
    return proc.returncode == EXIT_VIOLATION


# ---------------------------------------------------------------------------
# evidence
# ---------------------------------------------------------------------------

LEVELS = ("exploration", "fault_enumeration", "model_checking", "proof", "translation_validation", "other")


def validate_evidence(ev: dict) -> None:
    for k in ("property_id", "tier", "seed", "level", "coverage", "wall_s"):
        if k not in ev:
            raise core.HarnessError("evidence lacks %s" % k)
    if ev["tier"] not in ("quick", "thorough") or ev["level"] not in LEVELS:
        raise core.HarnessError("evidence tier/level invalid")
    if not isinstance(ev["seed"], int) or not isinstance(ev["wall_s"], (int, float)):
        raise core.HarnessError("evidence seed/wall_s invalid")
    cov = ev["coverage"]
    if not (isinstance(cov.get("evaluations"), int) and cov["evaluations"] >= 1):
        raise core.HarnessError("coverage.evaluations invalid")
    if not (isinstance(cov.get("distinct_nontrivial"), int) and cov["distinct_nontrivial"] >= 2):
        raise core.HarnessError("coverage.distinct_nontrivial invalid")
    if not isinstance(cov.get("rule"), str) or not isinstance(cov.get("samples"), list) or not cov["samples"]:
        raise core.HarnessError("coverage.rule/samples invalid")


def write_evidence(pid: str, ev: dict) -> str:
    validate_evidence(ev)
    os.makedirs(EVIDENCE_DIR, exist_ok=True)
    path = os.path.join(EVIDENCE_DIR, pid + ".json")
    tmp = path + ".tmp"
    with open(tmp, "w") as fh:
        json.dump(ev, fh, indent=1, sort_keys=True, ensure_ascii=False)
    os.replace(tmp, path)
    return path


# ---------------------------------------------------------------------------
# the check command
# ---------------------------------------------------------------------------


def check(pid: str, tier: str, runs: int | None = None) -> int:
    from .props import PROPERTIES

    t0 = time.time()
    core.assert_repo_import()
    prop = PROPERTIES[pid]
    batch = core.batch_seed()
    n = runs if runs is not None else prop.runs[tier]
    env_runs = os.environ.get("VERIF_RUNS")
    if env_runs:
        n = int(env_runs)
    known = load_known(pid)
    nj = core.jobs()
    chunk = max(1, min(250, n // (nj * 4) or 1))
    want_samples = set(range(0, n, max(1, n // 5)))
    tasks = [(pid, tier, batch, idxs, want_samples) for idxs in _chunks(n, chunk)]
    records: list[dict] = []
    harness_errors: list[str] = []
    ctx = multiprocessing.get_context("fork")
    stop_after = int(os.environ.get("NIMASIM_STOP_AFTER_VIOLATIONS", "0") or 0)
    print("nimasim check property=%s tier=%s seed=%d runs=%d jobs=%d" % (pid, tier, batch, n, nj), flush=True)
    try:
        with ProcessPoolExecutor(max_workers=nj, mp_context=ctx) as pool:
            futs = [pool.submit(_worker, t) for t in tasks]
            for fut in as_completed(futs, timeout=max(600, PER_RUN_WALL_S * 4) if tier == "quick" else 6 * 3600):
                for rec in fut.result():
                    if "harness_error" in rec:
                        harness_errors.append("seed %d: %s" % (rec["seed"], rec["harness_error"]))
                    else:
                        records.append(rec)
                if stop_after:
                    # (tools/verify_seeded.py only: a patched copy that violates the property does not need the
                    # whole batch; never set by a registered command)
                    unknown = sum(1 for r in records for v in r.get("viols", []) if not match_known(Violation.from_json(v), known))
                    if unknown >= stop_after:
                        pool.shutdown(wait=False, cancel_futures=True)
                        break
    except Exception as exc:  # noqa: BLE001 - pool broke / worker died / timeout
        harness_errors.append("worker pool failure: %r" % (exc,))
    records.sort(key=lambda r: r["idx"])
    if hasattr(prop, "post_batch") and not harness_errors:
        try:
            pv, ps, pcase = prop.post_batch(batch, tier)
            records.append({"idx": len(records), "seed": batch, "viols": [v.to_json() for v in pv], "stats": ps, "keys": [],
                            "digest": core.digest([pcase, [v.to_json() for v in pv]]), "case": pcase, "post_batch": True})
        except Exception as exc:  # noqa: BLE001
            harness_errors.append("post-batch stage: %r" % (exc,))

    # determinism spot check: re-run a 2% sample in this process
    nondeterministic = []
    for rec in records[:: max(1, len(records) // max(1, len(records) // 50))][:60]:
        if rec.get("post_batch"):
            continue
        try:
            case, viols, stats, _ = _execute_one(pid, rec["seed"], tier)
            d = core.digest([case, [v.to_json() for v in viols], _stable(stats)])
        except Exception:  # noqa: BLE001
            d = "error"
        if d != rec["digest"]:
            nondeterministic.append(rec["seed"])
    history_violation = None
    if nondeterministic and pid == "C15":
        # For C15 this *is* the property: the same case, executed again in a process that has meanwhile handled other
        # documents, gives a different result ("regardless of which other documents were processed before").
        order = [r["seed"] for r in records if not r.get("post_batch")]
        first = nondeterministic[0]
        prefix = order[: min(len(order), 400)]
        os.makedirs(REPLAY_DIR, exist_ok=True)
        rpath = os.path.join(REPLAY_DIR, "C15-%d-C15_history_dependent.json" % first)
        with open(rpath, "w") as fh:
            json.dump({"property": "C15", "kind": "rerun_mismatch", "tier": tier, "seed": first, "prefix_seeds": prefix,
                       "violation": {"oracle": "C15.history_dependent", "message": "the case gives a different result when it is executed after other cases in the same process", "facts": {"seeds": nondeterministic[:5]}}},
                      fh, indent=1, sort_keys=True)
        history_violation = rpath
    elif nondeterministic:
        harness_errors.append("non-deterministic runs (digest differs on re-execution): seeds %r" % nondeterministic[:5])

    # triage
    agg: dict = {}
    keys: set = set()
    known_hits: dict = {}
    unknown: dict = {}
    for rec in records:
        for k, v in rec["stats"].items():
            agg[k] = agg.get(k, 0) + v
        keys.update(rec["keys"])
        for vj in rec["viols"]:
            v = Violation.from_json(vj)
            e = match_known(v, known)
            if e is not None:
                known_hits[e["id"]] = known_hits.get(e["id"], 0) + 1
            else:
                unknown.setdefault(v.oracle, []).append((rec, v))

    exit_code = EXIT_OK
    violation_lines = []
    if history_violation:
        exit_code = EXIT_VIOLATION
        print("VIOLATION property=C15 replay=%s" % os.path.abspath(history_violation))
        print("  oracle=C15.history_dependent seeds=%r" % nondeterministic[:5])
        print("  the same case gives a different result when executed again after other cases in one process")
    for oracle in sorted(unknown):
        hits = unknown[oracle]
        hits.sort(key=lambda rv: (len(rv[0]["case"].get("ops", [])) + len(rv[0]["case"].get("doc", "")) / 1000.0, rv[0]["idx"]))
        # candidates for the report: the minimised smallest hit first; if that does not reproduce in a fresh
        # interpreter (outcomes that depend on allocator state, e.g. address reuse) the unminimised case and
        # then further hits are tried -- a case is only ever reported if its replay file reproduces
        path = None
        for rec, v in hits[:getattr(prop, "report_candidates", 4)]:
            case = rec["case"]
            if hasattr(prop, "refine"):
                case = prop.refine(case, v)
            original = len(case.get("ops", []))
            small, tries = shrink(prop, case, oracle, known, budget=getattr(prop, "shrink_budget", 400))
            v2 = still_fails(prop, small, oracle, known) or v
            cand = write_replay(pid, small, v2, original, tries)
            if _replay_in_fresh_process(cand):
                path = cand
                break
            cand = write_replay(pid, case, v, original, 0)
            if _replay_in_fresh_process(cand):
                path, small, v2 = cand, case, v
                print("note: the minimised case did not reproduce in a fresh interpreter; reporting the unminimised one")
                break
            # history-dependent: replay the cases that ran before it in the same (forked) chunk process,
            # then minimise that prefix by halving
            prefix = [core.run_seed(batch, pid, k) for k in range(rec.get("chunk_start", rec["idx"]), rec["idx"])]
            if prefix:
                cand = write_replay(pid, rec["case"], v, original, 0, prefix_seeds=prefix, tier=tier)
                if _replay_in_fresh_process(cand):
                    size = len(prefix) // 2
                    trials = 0  # every trial re-executes the whole prefix in a fresh interpreter: a fixed small number
                    while size >= 1 and len(prefix) > 1 and trials < PREFIX_SHRINK_TRIALS:
                        shrunk = False
                        for start in range(0, len(prefix), size):
                            if trials >= PREFIX_SHRINK_TRIALS:
                                break
                            trials += 1
                            trial = prefix[:start] + prefix[start + size:]
                            write_replay(pid, rec["case"], v, original, 0, prefix_seeds=trial, tier=tier)
                            if _replay_in_fresh_process(cand):
                                prefix = trial
                                shrunk = True
                                break
                        if not shrunk:
                            size //= 2
                    cand = write_replay(pid, rec["case"], v, original, 0, prefix_seeds=prefix, tier=tier)
                    path, small, v2 = cand, rec["case"], v
                    print("note: history-dependent violation; replay file carries %d preceding case(s)" % len(prefix))
                    break
        if path is None:
            harness_errors.append("%d case(s) violating %s found, none reproduces in a fresh interpreter (last replay %s)" % (len(hits), oracle, cand))
            continue
        violation_lines.append("VIOLATION property=%s replay=%s" % (pid, path))
        print("VIOLATION property=%s replay=%s" % (pid, path))
        print("  oracle=%s occurrences=%d seed=%d ops %d->%d" % (oracle, len(hits), rec["seed"], original, len(small.get("ops", []))))
        print("  " + v2.message[:500])
        exit_code = EXIT_VIOLATION

    # known findings: replay each witness so the line is printed deterministically
    for e in known:
        fires = known_hits.get(e["id"], 0)
        wit = e.get("witness")
        wit_ok = None
        if wit:
            wpath = os.path.join(core.VERIF_ROOT, wit)
            try:
                with open(wpath) as fh:
                    wdata = json.load(fh)
                wv, _, _ = prop.execute(wdata["case"])
                wit_ok = any(x.oracle == e["oracle"] and match_known(x, [e]) for x in wv)
            except Exception:  # noqa: BLE001
                wit_ok = False
        if wit_ok or fires:
            print("KNOWN-FINDING: property=%s %s [%s; sampled cases in region: %d]" % (pid, e["description"], e["id"], fires))
        else:
            print("note: known finding %s no longer reproduces (witness and %d sampled cases)" % (e["id"], fires))

    wall = time.time() - t0
    samples = []
    for rec in records:
        if "case" in rec and not rec["viols"]:
            c = rec["case"]
            samples.append({k: c[k] for k in c if k in ("seed", "doc", "ops", "world", "calls", "events", "argv", "input")})
        if len(samples) >= 4:
            break
    if not samples and records:
        samples = [{"seed": records[0]["seed"]}]
    ops_total = agg.get("ops", 0)
    ev = {
        "property_id": pid,
        "tier": tier,
        "seed": batch,
        "level": getattr(prop, "level", "exploration"),
        "wall_s": round(wall, 2),
        "violations": len(violation_lines),
        "coverage": {
            "evaluations": len(records),
            "distinct_nontrivial": len(keys),
            "rule": getattr(prop, "rule", "one evaluation = one seeded history; distinct = distinct hash of (decoded state before a step, operation, outcome, live/fresh) over all steps of all histories; a step is non-trivial when it executed an operation against the real library"),
            "samples": samples,
            "runs_per_hour": int(len(records) / wall * 3600) if wall > 0 else 0,
            "operations_executed": ops_total,
            "counters": dict(sorted(agg.items())),
            "known_finding_hits": known_hits,
            "engine": prop.engine,
            "real_components": getattr(prop, "real", ["nix_manipulator (imported from /repo working tree)", "tree-sitter + tree-sitter-nix"]),
            "stubbed_components": getattr(prop, "stubbed", []),
            "determinism_recheck": {"sampled": min(60, len(records)), "mismatches": len(nondeterministic)},
            "harness_errors": len(harness_errors),
        },
        "assumptions": getattr(prop, "assumptions", [
            "tree-sitter-nix grammar is the reference for syntax (common mode with the library)",
            "reference models follow docs/cli.md, docs/api.md and the property statement; combinations they leave undefined are skipped and counted under why:*",
            "sampling, not enumeration: a clean batch is evidence, not proof",
        ]),
    }
    try:
        write_evidence(pid, ev)
    except Exception as exc:  # noqa: BLE001
        harness_errors.append("evidence: %r" % (exc,))
    print("runs=%d ops=%d distinct_states=%d wall=%.1fs known_hits=%s" % (len(records), ops_total, len(keys), wall, known_hits))
    if harness_errors:
        for h in harness_errors[:5]:
            print("ERROR harness " + h[:2000])
        if exit_code == EXIT_OK:
            return EXIT_HARNESS
    return exit_code


# ---------------------------------------------------------------------------
# witnesses for known findings (developer command; output is committed by hand)
# ---------------------------------------------------------------------------


def make_witnesses(only: str | None = None, max_seeds: int = 20000) -> int:
    """Search a concrete minimised case for every known finding and store it under witnesses/."""
    from .props import PROPERTIES

    core.assert_repo_import()
    with open(KNOWN_FILE) as fh:
        data = json.load(fh)
    wdir = os.path.join(core.VERIF_ROOT, "witnesses")
    os.makedirs(wdir, exist_ok=True)
    missing = 0
    for e in data["known"]:
        if only and e["id"] != only:
            continue
        prop = PROPERTIES[e["property"]]
        found = None
        for idx in range(max_seeds):
            seed = core.run_seed(4242, e["property"] + ":witness", idx)
            case = prop.generate(seed, "quick")
            try:
                viols, _, _ = prop.execute(case)
            except Exception:  # noqa: BLE001
                continue
            hit = next((v for v in viols if match_known(v, [e])), None)
            if hit is not None:
                found = (case, hit)
                break
        if found is None:
            print("no witness found for", e["id"])
            missing += 1
            continue
        case, hit = found
        if hasattr(prop, "refine"):
            case = prop.refine(case, hit)

        def matches(c):
            try:
                vs, _, _ = prop.execute(c)
            except Exception:  # noqa: BLE001
                return None
            return next((v for v in vs if match_known(v, [e])), None)

        tries = 0
        improved = True
        while improved and tries < 300:
            improved = False
            for cand in prop.shrink_candidates(case):
                tries += 1
                if tries >= 300:
                    break
                if matches(cand) is not None:
                    case = cand
                    improved = True
                    break
        v = matches(case) or hit
        rel = os.path.join("witnesses", e["id"] + ".json")
        with open(os.path.join(core.VERIF_ROOT, rel), "w") as fh:
            json.dump({"property": e["property"], "case": case, "violation": v.to_json(), "finding": e["id"]}, fh, indent=1, sort_keys=True, ensure_ascii=False)
        e["witness"] = rel
        print("witness for %s: %s" % (e["id"], rel))
    with open(KNOWN_FILE, "w") as fh:
        json.dump(data, fh, indent=2, ensure_ascii=False)
        fh.write("\n")
    return 0 if not missing else 2
