"""nimasim: deterministic simulation with fault injection for nix-manipulator."""
