#!/usr/bin/env python3
"""Re-port seeded patches to /repo's HEAD.

For every seeded/<id>/ whose patch (patch.ported.diff if present, else patch.diff)
no longer applies with `git apply`, try `patch -p1 --fuzz=3` in a scratch
worktree (same edit, moved context) and store the result as patch.ported.diff.
Prints one line per change: ok / ported / FAILED.
"""
import glob
import os
import shutil
import subprocess
import sys
import tempfile

root = os.path.join(os.path.dirname(os.path.dirname(os.path.abspath(__file__))), "seeded")
ids = sys.argv[1:] or sorted(os.path.basename(d) for d in glob.glob(os.path.join(root, "C*")))
wt = tempfile.mkdtemp(prefix="portwt-", dir="/tmp")
os.rmdir(wt)
subprocess.run(["git", "-C", "/repo", "worktree", "add", "-q", "--detach", wt, "HEAD"], check=True)
try:
    for i in ids:
        d = os.path.join(root, i)
        cands = [p for p in (os.path.join(d, "patch.ported.diff"), os.path.join(d, "patch.diff")) if os.path.exists(p)]
        if any(subprocess.run(["git", "-C", wt, "apply", "--check", p], capture_output=True).returncode == 0 for p in cands[:1]):
            print(i, "ok")
            continue
        done = False
        for p in cands:
            subprocess.run(["git", "-C", wt, "checkout", "-q", "--", "."], check=True)
            subprocess.run(["git", "-C", wt, "clean", "-fdq"], check=True)
            r = subprocess.run(["patch", "-p1", "--fuzz=3", "--no-backup-if-mismatch", "-i", p], cwd=wt, capture_output=True, text=True)
            if r.returncode == 0:
                diff = subprocess.run(["git", "-C", wt, "diff"], capture_output=True, text=True).stdout
                with open(os.path.join(d, "patch.ported.diff"), "w") as fh:
                    fh.write(diff)
                print(i, "ported from", os.path.basename(p))
                done = True
                break
        if not done:
            print(i, "FAILED", r.stdout[-300:].replace("\n", " | "))
        subprocess.run(["git", "-C", wt, "checkout", "-q", "--", "."], check=True)
        subprocess.run(["git", "-C", wt, "clean", "-fdq"], check=True)
finally:
    subprocess.run(["git", "-C", "/repo", "worktree", "remove", "--force", wt], capture_output=True)
    shutil.rmtree(wt, ignore_errors=True)
