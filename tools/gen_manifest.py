#!/usr/bin/env python3
"""Regenerate MANIFEST.json from one table (keeps the file valid and consistent)."""
import json, os, subprocess

ROOT = os.path.dirname(os.path.dirname(os.path.abspath(__file__)))
PY = "/venv/bin/python"

CHECKS = {
    "C04": ("session", "exploration", "3.C04",
            "seeded edit histories (set/rm, restarts, wrappers, trivia) on a live object; byte/token/comment locality of every step judged against extents read from the before-text by an independent tree-sitter reader",
            "deterministic simulation: seeded edit-session histories with restart points; per-step locality oracle from an independent CST reader"),
    "C05": ("session", "exploration", "3.C05",
            "seeded edit histories; after every successful step the emitted text must be error free and decode (independent reader) to exactly the tree a documentation-derived reference model predicts; well-formed edits must not be refused",
            "deterministic simulation: seeded edit-session histories checked step by step against an executable reference model of the attribute tree and let layers"),
    "C06": ("session", "exploration", "3.C06",
            "every text emitted along every seeded edit history (and every rebuilt start document) must be a fixed point of parse/rebuild; the input-only half of the quantifier is sampled only through start states",
            "deterministic simulation: fixed-point invariant evaluated on every state reached by seeded edit histories"),
    "C07": ("damage", "fault_enumeration", "3.C07",
            "for each sampled stored document every single truncation, token loss and token duplication (capped per document) plus sampled stray tokens, garbage and 2-3 compounded damages, optionally after successful edits and wrapped in whitespace; pass-through, Fail/1 verdict and refusal of a battery of edits through library and CLI",
            "fault injection on the stored text between save and load: exhaustive single-fault enumeration per sampled document plus seeded multi-fault sequences"),
    "C08": ("session", "exploration", "3.C08",
            "failing operations (all rejection classes) interleaved with succeeding ones on one live object, through the CLI helpers, the mapping API and the scope mapping; exception class, unchanged rebuild after each failure, and an as-if-never-happened twin history that answers every later operation",
            "deterministic simulation: seeded histories interleaving failing and succeeding operations; twin-history comparison"),
    "C09": ("session", "exploration", "3.C09",
            "scoped set/rm histories over 0-3 let layers x wrapper shapes x selector depths with names present in several layers; decoded let chain vs reference model, body and non-addressed layers byte-identical",
            "deterministic simulation: seeded scoped-edit histories against a reference model of the let layers"),
    "C14": ("mapping", "exploration", "3.C14",
            "histories of item get/set/del on the document, nested sets and the scope mapping with restarts (bare names; a second workload keyed by the spelling of quoted names); plain-dict model vs API answers vs tree decoded from rebuild()",
            "deterministic simulation: seeded mapping-operation histories against a dictionary reference model and the decoded text"),
    "C15": ("threads", "exploration", "3.C15",
            "seeded pre-emption schedules of 2-4 caller threads (baton scheduler on sys.settrace line events, scheduled gc), deep structural snapshots around every rebuild, order permutations in one process, and a PYTHONHASHSEED x cwd matrix of fresh interpreters",
            "deterministic simulation: seeded baton scheduler over real threads (one runnable at a time) with scheduled GC; serial execution as oracle; configuration matrix"),
    "C16": ("cli", "exploration", "3.C16",
            "in-process CLI main() under simulated stdin (chunked down to 1 byte), -f FILE, input faults (missing/dir/undecodable/closed), stdout faults (EPIPE/ENOSPC/EFBIG at a chosen byte, short writes, a stdout that takes a few bytes per call) and a stack limit on deeply nested documents; library result as oracle; pipeline step; sample cross-checked against real subprocesses",
            "deterministic simulation of the process boundary: simulated streams with chunking and I/O fault injection, library as reference"),
    "C17": ("fs", "exploration", "3.C17",
            "real directory trees with same-named files and planted values, import chains of 1-4 hops, entry spellings, chdir / removed-cwd events scheduled between calls, missing/dir/unreadable/non-path/angle faults; purely lexical expectation",
            "deterministic simulation: seeded cwd-change schedules between calls on a real scratch file system with injected read errors"),
    "C19": ("laws", "exploration", "3.C19",
            "law instances (idempotence, set-then-rm, rm-then-set, commutation) as alternative histories on live and restarted objects; outputs compared with each other",
            "deterministic simulation: alternative operation orders and restart points compared pairwise"),
    "C10": ("registry", "exploration", "3.C10",
            "document-lifetime histories (create / traverse / resolve / edit / rename / move between documents / discard / gc.collect in seeded order over several live documents) on generated scoping programs; independent lexical-scoping resolver as oracle; step budget for unbound/cyclic names",
            "deterministic simulation: seeded document-lifetime histories with scheduled garbage collection against an independent reference resolver"),
    "C11": ("session", "exploration", "3.C11",
            "edit histories on documents whose binding values are references (let layers, rec sets, inherit, chains, shadowing); the reference resolver names the one binding whose value extent may change",
            "deterministic simulation: seeded edit histories on reference-laden documents; reference resolver designates the only extent allowed to change"),
}

NA = [
    ("C01", "pure function of the input text: no schedule, clock, fault or history to search; deciding it is input generation (fuzzing), not simulation"),
    ("C02", "pure function of the input text on a subset of inputs; nothing to schedule or inject"),
    ("C03", "comment preservation of the same pure text->text function; nothing to schedule or inject"),
    ("C12", "injectivity of attribute-name quoting over all strings is input enumeration, not histories or faults"),
    ("C13", "rendering of programmatically built values is a pure function of the Python value"),
    ("C18", "spacing normal form is a lexical predicate on the output of a pure function"),
    ("C20", "crash-freedom and CPU cost on arbitrary text concern a pure timer-free function; simulated time cannot stand in for CPU time"),
]


def main():
    import sys
    sys.path.insert(0, ROOT)
    from nimasim.props import PROPERTIES
    claimed = [p for p in sorted(CHECKS) if p in PROPERTIES]
    commits = []
    checks = []
    for pid in claimed:
        engine, level, ref, text, technique = CHECKS[pid]
        checks.append({
            "property_id": pid,
            "quick_cmd": "timeout 1500 %s -m nimasim check --property %s --tier quick" % (PY, pid),
            "thorough_cmd": "timeout 14000 %s -m nimasim check --property %s --tier thorough" % (PY, pid),
            "evidence_file": "/verif/evidence/%s.json" % pid,
            "replay_cmd_template": "%s -m nimasim replay {path}" % PY,
            "engine": engine,
            "level_claimed": {"category": level, "text": text, "design_ref": "DESIGN.md section " + ref},
            "level_note": "trusted base: tree-sitter + tree-sitter-nix (common mode with the library), the reference models in nimasim/model.py, resolver.py (written from docs and property statements); seeded sampling, not enumeration; known findings listed in known_findings.json are reported as KNOWN-FINDING and do not fail the check",
            "technique": technique,
        })
    na = [{"property_id": p, "reason": r} for p, r in NA]
    for pid in sorted(CHECKS):
        if pid not in claimed:
            na.append({"property_id": pid, "reason": "check not built yet in this round (engine planned in DESIGN.md); not claimed until it runs"})
    manifest = {
        "version": 1,
        "setup_cmd": "timeout 900 %s -m nimasim setup" % PY,
        "hooks": {
            "guard": "NIMA_VERIF",
            "enable": "no hooks: every seam is reached by monkeypatching from /verif (sys.settrace, sys.stdin/stdout, gc, os.chdir, pathlib.Path.read_text); the package is imported from /repo's working tree, so there is nothing to build",
            "baseline_off_cmd": "cd /repo && /venv/bin/python -m pytest -ra -q -p no:cacheprovider --timeout=900 --continue-on-collection-errors",
            "source_commits": commits,
            "add_only": True,
        },
        "engines": [
            {"name": "session", "path": "nimasim/session.py", "serves_properties": ["C04", "C05", "C06", "C08", "C09", "C11"], "kind_free_text": "edit-session simulator: one live document object driven through seeded histories of set/rm, restarts (re-parse of emitted text) and failing operations"},
            {"name": "laws", "path": "nimasim/laws.py", "serves_properties": ["C19"], "kind_free_text": "alternative-history comparator on live and restarted objects"},
            {"name": "mapping", "path": "nimasim/mapping.py", "serves_properties": ["C14"], "kind_free_text": "mapping-API history simulator with dictionary model"},
            {"name": "damage", "path": "nimasim/damage.py", "serves_properties": ["C07"], "kind_free_text": "storage fault injector: damage operators on the stored text between save and load, single-fault enumeration"},
            {"name": "cli", "path": "nimasim/clisim.py", "serves_properties": ["C16", "C07"], "kind_free_text": "process simulator: in-process main() with simulated, chunked and faulty streams; real-subprocess cross-check"},
            {"name": "fs", "path": "nimasim/fsworld.py", "serves_properties": ["C17"], "kind_free_text": "file-system world: real scratch tree, scheduled chdir / removed-cwd events, injected read errors"},
            {"name": "threads", "path": "nimasim/threads.py", "serves_properties": ["C15"], "kind_free_text": "baton scheduler: real threads, one runnable at a time, seeded pre-emption at sys.settrace line events, scheduled gc"},
            {"name": "registry", "path": "nimasim/registry.py", "serves_properties": ["C10"], "kind_free_text": "document-lifetime simulator over the global resolution-context registry with scheduled gc"},
        ],
        "checks": checks,
        "notes": "All commands run with cwd=/verif, honour VERIF_SEED / VERIF_TIER / VERIF_JOBS, exit 0 (held), 1 (VIOLATION line + replay file) or 2 (harness error). Genuine defects found on the pinned tree were repaired by 'fix:' commits in /repo or are listed in known_findings.json; see DESIGN.md section 5.",
        "not_applicable": na,
    }
    with open(os.path.join(ROOT, "MANIFEST.json"), "w") as fh:
        json.dump(manifest, fh, indent=1)
        fh.write("\n")
    print("claimed:", claimed)


if __name__ == "__main__":
    main()
