#!/usr/bin/env python3
"""Re-verify every seeded change and record the outcome in its meta.json ("verified" key)."""
import glob, json, os, subprocess, sys

EXTRA = {"C09-a": "C09,C08", "C19-a": "C19,C05,C09", "C06-b": "C06,C04", "C19-c": "C19,C05", "C08-c": "C08,C14"}
only = sys.argv[1:]
head = subprocess.check_output(["git", "-C", "/repo", "log", "--format=%h", "-1"], text=True).strip()
for d in sorted(glob.glob("/verif/seeded/C*-*")):
    name = os.path.basename(d)
    if only and name not in only:
        continue
    cmd = ["/venv/bin/python", "/verif/tools/verify_seeded.py", d]
    if name in EXTRA:
        cmd += ["--props", EXTRA[name]]
    if os.environ.get("VERIFY_SKIP_TESTS"):
        # (the baseline run was part of the verification when the change arrived; a re-verification of the checks
        # against an unchanged patch can skip it)
        cmd += ["--skip-tests"]
    proc = subprocess.run(cmd, capture_output=True, text=True)
    try:
        res = json.loads(proc.stdout[proc.stdout.index("{"):])
    except Exception:
        res = {"error": (proc.stdout + proc.stderr)[-300:]}
    res.pop("dir", None)
    res.pop("demo_tail", None)
    res["repo_head"] = head
    meta = json.load(open(os.path.join(d, "meta.json")))
    meta["verified"] = res
    json.dump(meta, open(os.path.join(d, "meta.json"), "w"), indent=1, ensure_ascii=False)
    print(name, {k: (v if not isinstance(v, dict) else v.get("rc")) for k, v in res.items()}, flush=True)
