#!/usr/bin/env python3
"""Run the repository's pinned suite and compare the passing set with BASELINE.json."""
import ast, json, subprocess, sys, tempfile, os
import xml.etree.ElementTree as ET

base = json.load(open("/root/.vp/BASELINE.json"))
want = set(ast.literal_eval(base["stable_pass"])) if isinstance(base["stable_pass"], str) else set(base["stable_pass"])
with tempfile.TemporaryDirectory() as d:
    xml = os.path.join(d, "r.xml")
    env = dict(os.environ); env.pop("NIMA_VERIF", None)
    subprocess.run(["/venv/bin/python", "-m", "pytest", "-q", "-p", "no:cacheprovider", "--timeout=900",
                    "--continue-on-collection-errors", "--junitxml=" + xml], cwd="/repo", env=env,
                   stdout=subprocess.DEVNULL, stderr=subprocess.DEVNULL)
    passed = set()
    for tc in ET.parse(xml).getroot().iter("testcase"):
        if not any(ch.tag in ("failure", "error", "skipped") for ch in tc):
            passed.add("%s::%s" % (tc.get("classname"), tc.get("name")))
missing = sorted(want - passed)
print("baseline stable tests: %d, passing now: %d, missing: %d" % (len(want), len(want & passed), len(missing)))
for m in missing[:20]:
    print("  MISSING", m)
sys.exit(1 if missing else 0)
