#!/bin/bash
# usage: tools/sweep.sh <first-seed> <last-seed> [tier] [props...]   -- runs every check under several VERIF_SEED values
first=$1; last=$2; tier=${3:-quick}; shift 3
props=${@:-C04 C05 C06 C07 C08 C09 C10 C11 C14 C15 C16 C17 C19}
export NIMASIM_EVIDENCE_DIR=$(mktemp -d) NIMASIM_REPLAY_DIR=${NIMASIM_REPLAY_DIR:-$PWD/sweep-replays}
mkdir -p "$NIMASIM_REPLAY_DIR"
for s in $(seq $first $last); do
  for p in $props; do
    out=$(VERIF_SEED=$s /venv/bin/python -m nimasim check --property $p --tier $tier 2>&1); rc=$?
    echo "seed=$s $p rc=$rc $(echo "$out" | grep -c '^VIOLATION') violations; $(echo "$out" | grep '^runs=' | cut -c1-80)"
    if [ $rc -ne 0 ]; then echo "$out" | grep -A3 '^VIOLATION\|^ERROR' | cut -c1-400; fi
  done
done
rm -rf "$NIMASIM_EVIDENCE_DIR"
