#!/bin/bash
# Re-verify every seeded change and record the outcome in its meta.json ("verified" key).
cd /verif
for d in seeded/C*-*/; do
  d=${d%/}
  extra=""
  case "$d" in
    seeded/C09-a) extra="--props C09,C08";;
    seeded/C19-a) extra="--props C19,C05,C09";;
    seeded/C06-b) extra="--props C06,C04";;
  esac
  out=$(/venv/bin/python tools/verify_seeded.py "$d" $extra 2>&1)
  /venv/bin/python - "$d" <<PY
import json,sys
d=sys.argv[1]
try:
    res=json.loads('''$out''')
except Exception as e:
    res={"error": "unparsable verifier output"}
m=json.load(open(d+"/meta.json"))
res.pop("dir",None); res.pop("demo_tail",None)
import subprocess
res["repo_head"]=subprocess.check_output(["git","-C","/repo","log","--format=%h","-1"],text=True).strip()
m["verified"]=res
json.dump(m,open(d+"/meta.json","w"),indent=1,ensure_ascii=False)
print(d, {k:(v if not isinstance(v,dict) else v.get("rc")) for k,v in res.items()})
PY
done
