#!/bin/bash
# usage: tools/thorough.sh [props...]   -- runs the thorough tier of every (or the given) check once, default seed
props=${@:-C04 C05 C06 C07 C08 C09 C10 C11 C14 C15 C16 C17 C19}
export NIMASIM_EVIDENCE_DIR=$(mktemp -d) NIMASIM_REPLAY_DIR=${NIMASIM_REPLAY_DIR:-$PWD/thorough-replays}
mkdir -p "$NIMASIM_REPLAY_DIR"
for p in $props; do
  out=$(timeout 14000 /venv/bin/python -m nimasim check --property $p --tier thorough 2>&1); rc=$?
  echo "thorough $p rc=$rc $(echo "$out" | grep -c '^VIOLATION') violations; $(echo "$out" | grep '^runs=' | cut -c1-120)"
  if [ $rc -ne 0 ]; then echo "$out" | grep -A3 '^VIOLATION\|^ERROR' | cut -c1-400; fi
done
rm -rf "$NIMASIM_EVIDENCE_DIR"
