#!/usr/bin/env python3
"""Verify a seeded change independently and run the owning check against it.

usage: verify_seeded.py <seeded-dir> [--props C04,C05] [--tier quick]
  <seeded-dir> holds patch.diff, demo.py, meta.json.
Steps (all in a scratch git worktree of /repo outside /repo and /verif, removed afterwards):
  1. demo.py passes on the unmodified tree
  2. patch applies; the 340 baseline tests still pass
  3. demo.py fails with the patch
  4. the property's check (NIMASIM_REPO=<scratch>) reports a VIOLATION (exit 1)
"""
import argparse, ast, json, os, shutil, subprocess, sys, tempfile
import xml.etree.ElementTree as ET

ap = argparse.ArgumentParser()
ap.add_argument("dir")
ap.add_argument("--props", default="")
ap.add_argument("--tier", default="quick")
ap.add_argument("--skip-tests", action="store_true")
args = ap.parse_args()
sd = os.path.abspath(args.dir)
meta = json.load(open(os.path.join(sd, "meta.json")))
props = [p for p in args.props.split(",") if p] or [meta["property"]]
wt = tempfile.mkdtemp(prefix="seedwt-", dir="/tmp")
os.rmdir(wt)
res = {"dir": sd, "property": meta["property"]}
try:
    subprocess.run(["git", "-C", "/repo", "worktree", "add", "-q", "--detach", wt, "HEAD"], check=True)
    os.makedirs(os.path.join(wt, "SEEDED"))
    shutil.copy(os.path.join(sd, "demo.py"), os.path.join(wt, "SEEDED", "demo.py"))
    env = dict(os.environ, PYTHONPATH=wt, PYTHONHASHSEED="0")
    def demo():
        return subprocess.run(["/venv/bin/python", "SEEDED/demo.py"], cwd=wt, env=env, capture_output=True, text=True, timeout=600)
    r = demo(); res["demo_unpatched_rc"] = r.returncode
    # a change written against an earlier HEAD may have been ported by hand (same edit, new context)
    patch = os.path.join(sd, "patch.ported.diff")
    if not os.path.exists(patch):
        patch = os.path.join(sd, "patch.diff")
    res["patch_file"] = os.path.basename(patch)
    ap_ = subprocess.run(["git", "-C", wt, "apply", patch], capture_output=True, text=True)
    res["patch_applies"] = ap_.returncode == 0
    if ap_.returncode != 0:
        res["apply_err"] = ap_.stderr[-300:]
    else:
        r = demo(); res["demo_patched_rc"] = r.returncode; res["demo_tail"] = (r.stdout + r.stderr)[-300:]
        if not args.skip_tests:
            base = json.load(open("/root/.vp/BASELINE.json"))
            want = set(ast.literal_eval(base["stable_pass"])) if isinstance(base["stable_pass"], str) else set(base["stable_pass"])
            xml = os.path.join(wt, "r.xml")
            subprocess.run(["/venv/bin/python", "-m", "pytest", "-q", "-p", "no:cacheprovider", "--timeout=900", "--continue-on-collection-errors", "--junitxml=" + xml],
                           cwd=wt, env=env, stdout=subprocess.DEVNULL, stderr=subprocess.DEVNULL)
            passed = set()
            for tc in ET.parse(xml).getroot().iter("testcase"):
                if not any(ch.tag in ("failure", "error", "skipped") for ch in tc):
                    passed.add("%s::%s" % (tc.get("classname"), tc.get("name")))
            res["baseline_missing"] = sorted(want - passed)[:5]
        for p in props:
            cenv = dict(os.environ, NIMASIM_REPO=wt, PYTHONHASHSEED="0", NIMASIM_REPLAY_DIR=os.path.join(wt, "replays"), NIMASIM_EVIDENCE_DIR=os.path.join(wt, "evidence"),
                        NIMASIM_STOP_AFTER_VIOLATIONS=os.environ.get("NIMASIM_STOP_AFTER_VIOLATIONS", "8"))
            c = subprocess.run(["/venv/bin/python", "-m", "nimasim", "check", "--property", p, "--tier", args.tier], cwd="/verif", env=cenv, capture_output=True, text=True, timeout=7200)
            lines = [l for l in c.stdout.splitlines() if l.startswith("VIOLATION") or l.startswith("  oracle=") or l.startswith("ERROR")]
            res["check_" + p] = {"rc": c.returncode, "lines": [l[:200] for l in lines[:6]]}
finally:
    subprocess.run(["git", "-C", "/repo", "worktree", "remove", "--force", wt], capture_output=True)
    shutil.rmtree(wt, ignore_errors=True)
print(json.dumps(res, indent=1))
